"""C16 -- automatic gridding meets its stated postconditions or fails loudly.

The statement is split along the call chain (a caller is checked against the callee's contract):

  construct_mesh        hands each direction to origin_and_widths with raise_error=False and raises RuntimeError if any direction
                        came back None; otherwise the mesh is built from exactly the three returned (origin, widths) pairs.
                        (option formats) a centre-on-edge switch given as bool, 3-tuple, 3-list or x/y/z dict arrives, whatever its value
                        (arbitrary booleans, entries may be None), as the `center_on_edge` of the call for its direction; positive scalar
                        min_width_pps / min_width_limits and common pairs arrive in every direction.
  origin_and_widths     (prefix, up to the search loop)  survey domain from domain > distance > vector, sea surface pulled into
                        the domain (or ValueError), centre part [c-dmin, c, c+dmin] (centre is a node) or [c-dmin/2, c+dmin/2]
                        (centre is a cell centre), computational domain = domain -/+ min(lambda_factor*wavelength, max_buffer)
                        (or the documented from-the-centre variant, capped at centre -/+ max_buffer).
                        (search loop, any number of iterations, by a loop invariant) whatever is returned non-None is the result
                        of `_stretch(sd_edges, sd_hx, ca, nx, comp_domain, use_up=True)` that did not fail, for the current
                        nx of the loop over np.unique(cell_numbers), where (sd_edges, sd_hx) come from a `_stretch(center_edges,
                        center_widths, sa, nx, domain)` that did not fail for the same nx, sa from linspace(1, stretching[0]),
                        ca from linspace(sa, stretching[1]); otherwise RuntimeError (raise_error) or (None, None).
  _stretch              (any nx, any width count; sequences as symbolic prefix sums) a non-False result has
                        nx - remain cells (exactly nx with use_up), starts at or left of both edges[0] and domain[0], ends at or
                        right of both edges[1] and domain[1], consists of a reversed geometric prefix (ratio `stretching`,
                        scale widths[0]), the given widths, and a geometric prefix (scale widths[-1]); origin and end are
                        edges -/+ the sums of exactly those prefixes; all new widths are positive.
  _seasurface           returns edges/widths and warns (UserWarning) exactly when np.isclose(0, min|nodes - seasurface|) is
                        false, the nodes being built from the returned edges and widths.
  skin_depth, wavelength, cell_width, good_mg_cell_nr   closed forms / membership.

Bounded stand-in on the real functions (c16_concrete): all stated postconditions of the property on a lattice of inputs.
"""
import z3

from pyvc import cx, ob, intake
from .cxutil import clause, canary, coverage, pcs, mx, mn

PROP = 'C16'

FREQ, CEN, D0, D1, LF, MB, SEA, DMIN = z3.Reals('freq center dom0 dom1 lambda_factor max_buffer seasurface dmin')
DIST0, DIST1 = z3.Reals('dist0 dist1')
S0, S1 = z3.Reals('stretch0 stretch1')
SD = [z3.Real(f'skind{i}') for i in range(3)]
WLEN = z3.Function('WAVELENGTH', z3.RealSort(), z3.RealSort())


def replay(d):
    from . import c16_concrete
    return ob.guarded(c16_concrete.check, 'quick', 0)


# ---------------------------------------------------------------------------------------------
# dependency contracts local to this property (numpy on small vectors: exact element-wise meaning)
# ---------------------------------------------------------------------------------------------

def _vec_reduce(kind):
    def h(it, f, args, kw, node):
        v = args[0]
        pick = mn if kind == 'min' else mx
        if kw.get('axis') == 0 and isinstance(v, (list, tuple)) and all(isinstance(x, cx.Vec) for x in v) \
                and len({len(x) for x in v}) == 1:
            return cx.Vec(pick(*[cx.R(x[i]) for x in v]) for i in range(len(v[0])))
        if isinstance(v, cx.Vec) and 'axis' not in kw:
            return pick(*[cx.R(x) for x in v])
        return cx.Opaque(f.name + '()')
    return h


def _vec_diff(it, f, args, kw, node):
    v = args[0]
    if isinstance(v, cx.Vec) and len(args) == 1:
        return cx.Vec(it.binop(cx.ast.Sub(), b, a, node) for a, b in zip(v, v[1:]))
    return cx.fresh_arr(node) if hasattr(cx, 'fresh_arr') else cx.NDArr(cx.Store(f'fresh@{getattr(node, "lineno", 0)}'))


def _vec_abs(it, f, args, kw, node):
    v = args[0]
    if isinstance(v, cx.Vec):
        return cx.Vec(z3.If(cx.R(x) >= 0, cx.R(x), -cx.R(x)) if cx.is_sym(x) else abs(x) for x in v)
    from pyvc import prelude
    return prelude.TABLE['builtins.abs'](it, f, args, kw, node)


def _vec_minmax_method(kind):
    def h(it, f, args, kw, node):
        v = f.bound
        if isinstance(v, cx.Vec):
            return (mn if kind == 'min' else mx)(*[cx.R(x) for x in v])
        return cx.Opaque(f.name + '()')
    return h


VEC_PRELUDE = {'np.min': _vec_reduce('min'), 'np.max': _vec_reduce('max'), 'np.amin': _vec_reduce('min'),
               'np.amax': _vec_reduce('max'), 'np.diff': _vec_diff, 'builtins.abs': _vec_abs,
               'list.min': _vec_minmax_method('min'), 'list.max': _vec_minmax_method('max')}


def base_summaries():
    def skin(it, args, kw, node):
        return cx.Vec(SD)

    def cw(it, args, kw, node):
        return DMIN

    def wl(it, args, kw, node):
        return cx.Vec(WLEN(x) for x in args[0])
    return {'meshes.skin_depth': skin, 'meshes.cell_width': cw, 'meshes.wavelength': wl,
            'meshes.good_mg_cell_nr': lambda it, args, kw, node: cx.Opaque('good_mg_cell_nr()'),
            'maps.MapConductivity.backward': lambda it, args, kw, node: args[1]}


# ---------------------------------------------------------------------------------------------
# origin_and_widths: everything before the search loop
# ---------------------------------------------------------------------------------------------

def _stop_at_first_loop(it, s, env):
    raise cx._Stop(dict(env))


STRETCH_PARAMS = ('edges', 'widths', 'stretching', 'nx', 'domain', 'use_up')


def bind_stretch(e):
    """arguments of a recorded _stretch call by parameter name (positional or keyword)"""
    b = dict(zip(STRETCH_PARAMS, e['args']))
    b.update(e['kwargs'])
    return b


def run_prefix(dom, vec, sea, lfc, coe):
    """origin_and_widths up to its second _stretch call (the one over the computational domain); what the function has worked out by then is
    read off the ARGUMENTS of the two calls, not off local variable names.
    dom in {'domain','distance'}; vec: bool (a node vector is given); sea: bool; lfc: bool; coe in {True, False, 'notset'}"""
    from .cxutil import generic_for_loops

    def stretch(it, args, kw, node):
        ctx = it.ctx
        calls = [e for e in ctx.events if e['kind'] == 'call' and e['name'] == 'meshes._stretch']      # this call included
        b = bind_stretch(calls[-1])
        if b.get('use_up') is True or len(calls) >= 2:
            raise cx._Stop(dict(calls=[bind_stretch(c) for c in calls]))
        w = cx.Opaque('stage1-widths')
        return ([z3.Real('stage1_edge0'), z3.Real('stage1_edge1')], w, z3.Int('stage1_remain'))

    def seq_fn(name):
        def h(it, f, args, kw, node):
            o = cx.Opaque(name)
            o.seq_args = list(args)
            return o
        return h

    def mk(ctx):
        ctx.opts.setdefault('prelude', {}).update(VEC_PRELUDE)
        ctx.opts['prelude'].update({'np.unique': seq_fn('np.unique'), 'np.linspace': seq_fn('np.linspace')})
        pm = cx.Obj('MapConductivity', {}, mod='maps')
        kw = dict(stretching=[S0, S1], lambda_factor=LF, max_buffer=MB, lambda_from_center=lfc, mapping=pm,
                  cell_numbers=cx.Opaque('cell_numbers'))
        if coe != 'notset':
            kw['center_on_edge'] = coe
        if dom == 'domain':
            kw['domain'] = [D0, D1]
        elif dom == 'distance':
            kw['distance'] = [DIST0, DIST1]
        if sea:
            kw['seasurface'] = SEA
        st = dict(vec=None)
        if vec:
            st['vec'] = cx.NDArr(cx.Store('vector', z3.Real('vector_elem')))
            kw['vector'] = st['vec']
        return [FREQ, [z3.Real('p0'), z3.Real('p1'), z3.Real('p2')], CEN], kw, st
    summs = base_summaries()
    summs['meshes._seasurface'] = lambda it, args, kw, node: (cx.Opaque('seasurface-edges'), cx.Opaque('seasurface-widths'))
    summs['meshes._stretch'] = stretch
    return cx.run_function('meshes.origin_and_widths', mk, pc0=[DMIN > 0, MB > 0], summaries=summs,
                           opts=dict(loop_hook=generic_for_loops({'finished': False})))


def task_prefix():
    from .cxutil import UNRECOGNISED
    col = ob.Collector(PROP, 'meshes.origin_and_widths/domain-centre-buffer')
    col.default_replay = replay
    col.function('meshes.origin_and_widths')
    pre = [DMIN > 0, MB > 0]
    absr = lambda x: z3.If(x >= 0, x, -x)

    def reached(r):
        return r.outcome == 'stop' and isinstance(r.value, dict) and 'calls' in r.value

    def two_calls(r):
        c = r.value['calls']
        if len(c) != 2 or any(k not in c[0] for k in ('edges', 'widths', 'domain')) or 'domain' not in c[1]:
            return None
        return c

    def vec2(v):
        return isinstance(v, (cx.Vec, list)) and len(v) == 2 and all(cx.is_sym(cx.R(x)) or isinstance(x, (int, float)) for x in v)

    # ---- survey domain and buffer, no vector ---------------------------------------------------------------
    for dom in ('domain', 'distance'):
        for sea in (False, True):
            for lfc in (False, True):
                res = run_prefix(dom, False, sea, lfc, True)
                tag = f'{dom}/{"sea" if sea else "nosea"}/{"from_center" if lfc else "from_domain"}'
                d0 = D0 if dom == 'domain' else CEN - absr(DIST0)
                d1 = D1 if dom == 'domain' else CEN + absr(DIST1)
                if sea:
                    d1 = mx(d1, SEA)
                w0, w1 = LF * WLEN(SD[1]), LF * WLEN(SD[2])

                def dom_ok(r):
                    c = two_calls(r)
                    if c is None or not vec2(c[0]['domain']):
                        return UNRECOGNISED('the search does not start with two _stretch calls over 2-vectors')
                    d = c[0]['domain']
                    return z3.And(cx.R(d[0]) == d0, cx.R(d[1]) == d1)
                clause(col, f'survey_domain/{tag}', res, dom_ok, pre, select=reached)
                if sea:
                    clause(col, f'seasurface_not_above_centre_raises_ValueError/{tag}', res,
                           lambda r: z3.BoolVal(r.outcome == 'raise' and r.value.typ == 'ValueError') == (SEA <= CEN), pre)
                else:
                    clause(col, f'no_error_before_the_search/{tag}', res, lambda r: r.outcome != 'raise' or r.value.typ == 'RuntimeError', pre)

                def comp_ok(r):
                    c = two_calls(r)
                    if c is None or not vec2(c[1]['domain']):
                        return UNRECOGNISED('the search does not start with two _stretch calls over 2-vectors')
                    c = c[1]['domain']
                    if not lfc:
                        # distance from the edge of the survey domain: lambda_factor wavelengths, at most max_buffer
                        return z3.And(cx.R(c[0]) == d0 - mn(w0, MB), cx.R(c[1]) == d1 + mn(w1, MB))
                    # from the centre to the edge and back to the end of the survey domain: two (scaled) wavelengths;
                    # never inside the survey domain; at most max_buffer from the centre
                    e0 = d0 - mx(z3.RealVal(0), (2 * w0 - absr(d0 - CEN)) / 2)
                    e1 = d1 + mx(z3.RealVal(0), (2 * w1 - absr(d1 - CEN)) / 2)
                    return z3.And(cx.R(c[0]) == mx(e0, CEN - MB), cx.R(c[1]) == mn(e1, CEN + MB))
                clause(col, f'computational_domain_is_domain_plus_capped_scaled_wavelength/{tag}', res, comp_ok, pre, select=reached)
                if not lfc and not sea and dom == 'domain':
                    def wrong(r):
                        c = two_calls(r)
                        if c is None or not vec2(c[1]['domain']):
                            return True
                        c = c[1]['domain']
                        return z3.And(cx.R(c[0]) == D0 - LF * mn(WLEN(SD[1]), MB), cx.R(c[1]) == D1 + LF * mn(WLEN(SD[2]), MB))
                    canary(col, f'canary/factor_applied_after_the_cap/{tag}', res, wrong, pre, select=reached)

    # ---- centre part ---------------------------------------------------------------------------------------
    for coe in (True, False, 'notset'):
        res = run_prefix('domain', False, False, False, coe)

        def centre(r):
            c = two_calls(r)
            if c is None:
                return UNRECOGNISED('the search does not start with two _stretch calls')
            e, w = c[0]['edges'], c[0]['widths']
            if not vec2(e):
                return UNRECOGNISED('centre edges are not a 2-vector')
            if coe in (True, 'notset'):
                # centre is a node: two cells of width dmin around it
                if not (isinstance(w, (cx.Vec, list)) and len(w) == 2):
                    return False
                return z3.And(cx.R(e[0]) == CEN - DMIN, cx.R(e[1]) == CEN + DMIN, cx.R(w[0]) == DMIN, cx.R(w[1]) == DMIN)
            # centre is a cell centre: one cell of width dmin around it
            if isinstance(w, (cx.Vec, list)) and len(w) == 1:
                w = w[0]
            if not cx.is_sym(w):
                return False
            return z3.And(cx.R(e[0]) == CEN - DMIN / 2, cx.R(e[1]) == CEN + DMIN / 2, cx.R(w) == DMIN)
        clause(col, f'centre_part_puts_centre_on_{"node" if coe in (True, "notset") else "cell_centre"}/center_on_edge={coe}', res,
               centre, pre, select=reached)
        clause(col, f'future_warning_iff_center_on_edge_not_set/center_on_edge={coe}', res,
               lambda r: any(e['kind'] == 'libcall' and e.get('name') == 'warnings.warn' for e in r.events) == (coe == 'notset'), pre)
    return col.pack()


# ---------------------------------------------------------------------------------------------
# origin_and_widths: the search over cell numbers and stretching factors (loop invariant: finished is False)
# ---------------------------------------------------------------------------------------------

def run_search(raise_error, verb):
    from .cxutil import generic_for_loops

    def stretch_summary(it, args, kw, node):
        ctx = it.ctx
        k = sum(1 for e in ctx.events if e['kind'] == 'call' and e['name'] == 'meshes._stretch')   # this call included
        ok = ctx.branch(ctx.fresh_bool(f'stretch{k}_succeeds'), '_stretch result')
        if not ok:
            return (False, False, False)
        w = cx.Opaque(f'stretch{k}-widths')
        w.stretch_call = k
        return ([z3.Real(f'stretch{k}_edge0'), z3.Real(f'stretch{k}_edge1')], w, z3.Int(f'stretch{k}_remain'))

    def seq_fn(name):
        def h(it, f, args, kw, node):
            o = cx.Opaque(name)
            o.seq_args = list(args)
            return o
        return h

    def mk(ctx):
        ctx.opts.setdefault('prelude', {}).update(VEC_PRELUDE)
        ctx.opts['prelude'].update({'np.unique': seq_fn('np.unique'), 'np.linspace': seq_fn('np.linspace')})
        pm = cx.Obj('MapConductivity', {}, mod='maps')
        cn = cx.Opaque('cell_numbers')
        kw = dict(stretching=[S0, S1], lambda_factor=LF, max_buffer=MB, mapping=pm, cell_numbers=cn, center_on_edge=False,
                  domain=[D0, D1], raise_error=raise_error, verb=verb)
        return [FREQ, [z3.Real('p0'), z3.Real('p1'), z3.Real('p2')], CEN], kw, dict(cell_numbers=cn)
    summs = base_summaries()
    summs['meshes._stretch'] = stretch_summary
    return cx.run_function('meshes.origin_and_widths', mk, pc0=[DMIN > 0, MB > 0], summaries=summs,
                           opts=dict(loop_hook=generic_for_loops({'finished': False})))


def task_search():
    col = ob.Collector(PROP, 'meshes.origin_and_widths/search')
    col.default_replay = replay
    col.function('meshes.origin_and_widths')
    pre = [DMIN > 0, MB > 0]
    for raise_error in (True, False):
        for verb in (0, -1):
            res = run_search(raise_error, verb)
            tag = f'raise_error={raise_error}/verb={verb}'
            clause(col, f'invariant_finished_is_False_at_every_loop_head/{tag}', res,
                   lambda r: not any(e['kind'] == 'inv_fail' for e in r.events), pre)
            done = [r for r in res if r.outcome in ('return', 'raise')]
            clause(col, f'paths_leaving_the_search_exist/{tag}', res, lambda r: len(done) >= 2, pre)

            def found(r):
                return any(e['kind'] == 'loop_break' for e in r.events)

            def wiring(r):
                from .cxutil import UNRECOGNISED
                if r.outcome != 'return':
                    return False
                v = r.value
                if not (isinstance(v, tuple) and len(v) == (3 if verb < 0 else 2)):
                    return False
                calls = [e for e in r.events if e['kind'] == 'call' and e['name'] == 'meshes._stretch']
                its = {e['line']: e for e in r.events if e['kind'] == 'generic_iteration'}
                if len(calls) != 2 or len(its) != 3:
                    return UNRECOGNISED('a found grid is not reached through three nested loops and two _stretch calls')
                (l_nx, i_nx), (l_sa, i_sa), (l_ca, i_ca) = sorted(its.items())
                b1, b2 = bind_stretch(calls[0]), bind_stretch(calls[1])
                if any(k not in b1 for k in STRETCH_PARAMS[:5]) or any(k not in b2 for k in STRETCH_PARAMS[:5]):
                    return UNRECOGNISED('_stretch is not called with (edges, widths, stretching, nx, domain)')
                # second call: use_up on the computational domain, same nx, started from the first call's result
                ok = b2.get('use_up') is True and not b1.get('use_up', False)
                ok = ok and b2['nx'] is i_nx['elem'] and b1['nx'] is i_nx['elem'] and b1['stretching'] is i_sa['elem'] and b2['stretching'] is i_ca['elem']
                # the returned origin / widths are those of the second call
                ok = ok and z3.is_expr(v[0]) and v[0].eq(z3.Real('stretch2_edge0')) and getattr(v[1], 'stretch_call', None) == 2
                ok = ok and isinstance(b2['edges'], list) and b2['edges'][0].eq(z3.Real('stretch1_edge0')) and b2['edges'][1].eq(z3.Real('stretch1_edge1'))
                ok = ok and getattr(b2['widths'], 'stretch_call', None) == 1
                # sequences: nx from unique(cell_numbers); sa from linspace(1, stretching[0], .); ca from linspace(sa, stretching[1], .)
                sq = lambda e: getattr(e['seq'], 'seq_args', None)
                if any(sq(e) is None for e in (i_nx, i_sa, i_ca)):
                    return UNRECOGNISED('the loops do not run over np.unique / np.linspace sequences')
                ok = ok and i_nx['seq'].tag == 'np.unique' and sq(i_nx)[0] is r.state['cell_numbers']
                ok = ok and i_sa['seq'].tag == 'np.linspace' and sq(i_sa)[0] == 1.0 and sq(i_sa)[1] is S0
                ok = ok and i_ca['seq'].tag == 'np.linspace' and sq(i_ca)[0] is i_sa['elem'] and sq(i_ca)[1] is S1
                if not ok:
                    return False
                # domains handed over: survey domain first, computational domain second
                d, c = b1['domain'], b2['domain']
                w0, w1 = LF * WLEN(SD[1]), LF * WLEN(SD[2])
                return z3.And(cx.R(d[0]) == D0, cx.R(d[1]) == D1, cx.R(c[0]) == D0 - mn(w0, MB), cx.R(c[1]) == D1 + mn(w1, MB),
                              cx.R(b1['edges'][0]) == CEN - DMIN / 2, cx.R(b1['edges'][1]) == CEN + DMIN / 2, cx.R(b1['widths']) == DMIN)
            clause(col, f'returned_grid_is_a_successful_use_up_stretch_over_comp_domain_of_a_successful_stretch_over_domain/{tag}',
                   res, wiring, pre, select=found)

            def notfound(r):
                if raise_error:
                    return r.outcome == 'raise' and r.value.typ == 'RuntimeError'
                return r.outcome == 'return' and r.value[0] is None and r.value[1] is None
            clause(col, f'no_grid_found_{"raises_RuntimeError" if raise_error else "returns_None"}/{tag}', res, notfound, pre,
                   select=lambda r: r.outcome in ('return', 'raise') and not found(r))
            clause(col, f'a_found_grid_is_returned/{tag}', res, lambda r: r.outcome == 'return' and r.value[0] is not None, pre,
                   select=found)
    return col.pack()


# ---------------------------------------------------------------------------------------------
# construct_mesh: per-direction routing, loud failure, mesh from the three results
# ---------------------------------------------------------------------------------------------

def expected_triple(L, d, P):
    """(min_width, buffer negative side, buffer positive side) property of direction d (0,1,2) as documented"""
    if L == 1:
        return [P[0], P[0], P[0]]
    if L == 2:
        return [P[0], P[1], P[1]]
    if L == 3:
        return [P[0], P[1], P[2]] if d == 2 else [P[0], P[2], P[2]]
    if L == 4:
        return [P[0], P[2], P[3]] if d == 2 else [P[0], P[1], P[1]]
    return [P[0], P[1 + 2 * d], P[2 + 2 * d]]


def expand_props(v):
    """what origin_and_widths makes of a property list (proved in task_prefix: cond_arr)"""
    v = list(v)
    n = len(v)
    return [v[0], v[min(n - 1, 1)], v[min(n - 1, 2)]]


def run_construct(L, fmt):
    P = [z3.Real(f'p{i}') for i in range(L)]
    CENS = (z3.Real('cx'), z3.Real('cy'), z3.Real('cz'))
    per = {k: [[z3.Real(f'{k}_{d}_a'), z3.Real(f'{k}_{d}_b')] for d in 'xyz'] for k in ('domain', 'vector', 'distance', 'stretching',
                                                                                       'min_width_limits', 'min_width_pps', 'center_on_edge')}
    common = {k: [z3.Real(f'{k}_common_a'), z3.Real(f'{k}_common_b')] for k in per}
    common['center_on_edge'] = True

    def oaw(it, args, kw, node):
        ctx = it.ctx
        # the direction of a call is the centre coordinate it is given (1: x, 2: y, 3: z) -- not its position in the call sequence
        cen = kw.get('center', args[2] if len(args) > 2 else None)
        ks = [d + 1 for d in range(3) if cen is CENS[d]]
        if len(ks) != 1:
            raise cx.Unsupported('origin_and_widths called with a centre that is none of the three centre coordinates')
        k = ks[0]
        ok = ctx.branch(ctx.fresh_bool(f'dir{k}_found'), 'found')
        info = cx.Opaque(f'info{k}')
        if not ok:
            return (None, None, info)
        h = cx.Opaque(f'h{k}')
        h.dirn = k
        return (z3.Real(f'origin{k}'), h, info)

    def tm(it, args, kw, node):
        return cx.Obj('TensorMesh', dict(h=kw.get('h'), origin=kw.get('origin'), nargs=len(args)), mod='meshes')

    def mk(ctx):
        kw = dict(seasurface=SEA, lambda_factor=LF)
        if fmt == 'dict':
            for k in per:
                kw[k] = {'x': per[k][0], 'y': None, 'z': per[k][2]} if k != 'vector' else {'x': None, 'y': per[k][1], 'z': per[k][2]}
        elif fmt == 'three':
            for k in per:
                kw[k] = (per[k][0], per[k][1], None) if k != 'distance' else [None, per[k][1], per[k][2]]
        elif fmt == 'common':
            for k in per:
                kw[k] = common[k]
        props = P if L > 1 or fmt != 'none' else P
        return [FREQ, props, CENS], kw, {}
    summs = {'meshes.origin_and_widths': oaw, 'meshes.TensorMesh': tm}

    def getattr_hook(it, v, attr):
        return NotImplemented
    res = cx.run_function('meshes.construct_mesh', mk, pc0=[], summaries=summs, opts={})
    return res, P, CENS, per, common


def task_construct():
    col = ob.Collector(PROP, 'meshes.construct_mesh')
    col.default_replay = replay
    col.function('meshes.construct_mesh')
    for L in (1, 2, 3, 4, 7):
        for fmt in ('none', 'dict', 'three') if L == 3 else ('none',):
            res, P, CENS, per, common = run_construct(L, fmt)
            tag = f'properties={L}/{fmt}'

            def calls(r):
                return [e for e in r.events if e['kind'] == 'call' and e['name'] == 'meshes.origin_and_widths']

            from .cxutil import UNRECOGNISED

            def by_direction(r):
                """the effective parameters of the origin_and_widths call of each direction; a direction is identified by the centre
                coordinate it receives (not by call order or by positional / keyword form)"""
                from pyvc import intake
                params = [a.arg for a in intake.func('meshes.origin_and_widths')[0].args.args]
                cs = calls(r)
                out = {}
                for c in cs:
                    if len(c['args']) > len(params) or any(p_ in c['kwargs'] for p_ in params[:len(c['args'])]):
                        return None
                    kw = dict(zip(params, c['args']))
                    kw.update(c['kwargs'])
                    ds = [d for d in range(3) if kw.get('center') is CENS[d]]
                    if len(ds) != 1 or ds[0] in out:
                        return None
                    out[ds[0]] = kw
                return out if len(out) == 3 and len(cs) == 3 else None

            def three_calls(r):
                cs = calls(r)
                if len(cs) != 3:
                    return False
                bd = by_direction(r)
                if bd is None:
                    return UNRECOGNISED('the three origin_and_widths calls cannot be matched to the three centre coordinates')
                ok = True
                for d in range(3):
                    kw = bd[d]
                    ok = ok and kw.get('raise_error') is False and kw.get('verb') == -1 and kw.get('frequency') is FREQ
                    ok = ok and kw.get('center') is CENS[d] and kw.get('lambda_factor') is LF
                    ok = ok and (kw.get('seasurface') is SEA if d == 2 else 'seasurface' not in kw)
                    got = kw.get('properties')
                    ok = ok and isinstance(got, list) and [str(x) for x in expand_props(got)] == [str(x) for x in expected_triple(L, d, P)]
                return ok
            clause(col, f'each_direction_gets_its_centre_properties_and_only_z_the_seasurface/{tag}', res, three_calls)

            def routing(r):
                cs = calls(r)
                ok = len(cs) == 3
                bd = by_direction(r) if ok else None
                if ok and bd is None:
                    return UNRECOGNISED('the three origin_and_widths calls cannot be matched to the three centre coordinates')
                for d in (range(3) if ok else ()):
                    kw = bd[d]
                    for k in per:
                        if fmt == 'none':
                            want = None if k in ('domain', 'vector') else 'absent'
                        elif fmt == 'dict':
                            want = per[k][d] if (d != 1 if k != 'vector' else d != 0) else ('absent' if k not in ('domain', 'vector') or True else None)
                        else:
                            want = per[k][d] if (d != 2 if k != 'distance' else d != 0) else 'absent'
                        have = kw.get(k, 'absent')
                        if want == 'absent':
                            ok = ok and (have == 'absent' if isinstance(have, str) else have is None)
                        elif want is None:
                            ok = ok and have is None
                        else:
                            ok = ok and str(have) == str(want)
                return ok
            clause(col, f'direction_specific_options_reach_their_direction_only/{tag}', res, routing)

            def loud(r):
                nones = [str(k) for k in r.pc if 'found' in str(k) and str(k).startswith('Not')]
                if nones:
                    return r.outcome == 'raise' and r.value.typ == 'RuntimeError'
                if r.outcome != 'return' or not isinstance(r.value, cx.Obj) or r.value.cls != 'TensorMesh':
                    return False
                h, o = r.value.fields.get('h'), r.value.fields.get('origin')
                return isinstance(h, list) and [getattr(x, 'dirn', None) for x in h] == [1, 2, 3] and len(o) == 3 and \
                    all(z3.is_expr(x) and x.eq(z3.Real(f'origin{k + 1}')) for k, x in enumerate(o))
            clause(col, f'any_direction_without_grid_raises_RuntimeError_else_mesh_of_the_three_results/{tag}', res, loud)
            clause(col, f'both_outcomes_explored/{tag}', res,
                   lambda r: {x.outcome for x in res} == {'return', 'raise'} and len(res) == 8)
    res, P, CENS, per, common = run_construct(3, 'common')

    def commons(r):
        cs = [e for e in r.events if e['kind'] == 'call' and e['name'] == 'meshes.origin_and_widths']
        return len(cs) == 3 and all(str(c['kwargs'].get(k)) == str(common[k]) for c in cs for k in per)
    clause(col, 'common_options_reach_all_directions/properties=3/common', res, commons)
    return col.pack()


# ---------------------------------------------------------------------------------------------
# construct_mesh: a direction-specific option arrives in its direction in EVERY documented format, whatever its value
# ("the centre lies on a node or a cell centre AS REQUESTED ... centre-on-edge switches ... in every accepted format")
# ---------------------------------------------------------------------------------------------

OAW_PARAMS = ('frequency', 'properties', 'center', 'domain', 'vector', 'seasurface')
SWITCH = [z3.Bool(f'center_on_edge_{d}') for d in 'xyz']          # the requested switches: arbitrary booleans
ABSENT = 'absent'


def bind_oaw(e):
    """arguments of a recorded origin_and_widths call by parameter name (positional or keyword)"""
    b = dict(zip(OAW_PARAMS, e['args']))
    b.update(e['kwargs'])
    return b


def run_construct_options(options, want):
    """construct_mesh(frequency, [p0, p1, p2], centre, domain=[D0, D1], **options); origin_and_widths is replaced by a summary that found a grid.
    `want` (what each direction has to receive) travels with the paths as their state."""
    CENS = (z3.Real('cx'), z3.Real('cy'), z3.Real('cz'))

    def oaw(it, args, kw, node):
        k = sum(1 for e in it.ctx.events if e['kind'] == 'call' and e['name'] == 'meshes.origin_and_widths')
        return (z3.Real(f'origin{k}'), cx.Opaque(f'h{k}'), cx.Opaque(f'info{k}'))

    def tm(it, args, kw, node):
        return cx.Obj('TensorMesh', dict(h=kw.get('h'), origin=kw.get('origin'), nargs=len(args)), mod='meshes')

    def mk(ctx):
        kw = dict(domain=[D0, D1])
        kw.update(options)
        return [FREQ, [z3.Real('p0'), z3.Real('p1'), z3.Real('p2')], CENS], kw, dict(want=want, centres=CENS)
    return cx.run_function('meshes.construct_mesh', mk, pc0=[], summaries={'meshes.origin_and_widths': oaw, 'meshes.TensorMesh': tm}, opts={})


def task_option_formats():
    from .cxutil import UNRECOGNISED
    col = ob.Collector(PROP, 'meshes.construct_mesh/option-formats')
    col.default_replay = replay_switch
    col.function('meshes.construct_mesh')

    def directions(r):
        """the three origin_and_widths calls of a path, by the centre coordinate they are given (not by their order)"""
        cs = [bind_oaw(e) for e in r.events if e['kind'] == 'call' and e['name'] == 'meshes.origin_and_widths']
        out = []
        for c in r.state['centres']:
            mine = [b for b in cs if b.get('center') is c]
            if len(cs) != 3 or len(mine) != 1:
                return None
            out.append(mine[0])
        return out

    def arrives(name, same):
        def post(r):
            ds = directions(r)
            if ds is None:
                return UNRECOGNISED('a returned mesh is not built from one origin_and_widths call per centre coordinate')
            goals = []
            for d, b in enumerate(ds):
                w = r.state['want'][d]
                if w is None:                  # nothing requested in this direction: nothing promised
                    continue
                if name not in b:
                    return False
                g = same(b[name], w)
                if not isinstance(g, bool) and not z3.is_expr(g):
                    return g                   # UNRECOGNISED
                if g is False:
                    return False
                if g is not True:
                    goals.append(g)
            return z3.And(*goals) if goals else True
        return post

    def same_switch(have, w):
        if isinstance(have, (cx.Vec, list, tuple)) and len(have) == 1:
            return UNRECOGNISED('the switch is handed on wrapped in a one-element sequence: origin_and_widths is only specified for a plain bool')
        have = cx.R(have)
        return (have == w) if z3.is_expr(have) and z3.is_bool(have) else False

    def same_number(have, w):
        # the number itself or a one-element vector holding it
        if isinstance(have, (cx.Vec, list, tuple)):
            if len(have) != 1:
                return False
            have = have[0]
        have = cx.R(have)
        if not (z3.is_expr(have) and (z3.is_int(have) or z3.is_real(have))):
            return False
        return have == w

    def same_pair(have, w):
        if not (isinstance(have, (cx.Vec, list, tuple)) and len(have) == 2):
            return False
        return z3.And(*[cx.R(a) == b for a, b in zip(have, w)])

    rets = lambda r: r.outcome == 'return'
    noerr = lambda r: r.outcome == 'return'

    # ---- centre-on-edge switches: bool, 3-tuple, 3-list, dict; entries may be None (nothing requested there) -------------------
    X, Y, Z = SWITCH
    fmts = {
        'bool': [(X, [X, X, X])],
        'tuple': [((X, Y, Z), [X, Y, Z]), ((X, None, Z), [X, None, Z]), ((None, Y, None), [None, Y, None])],
        'list': [([X, Y, Z], [X, Y, Z]), ([None, None, Z], [None, None, Z])],
        'dict': [({'x': X, 'y': Y, 'z': Z}, [X, Y, Z]), ({'x': None, 'y': Y, 'z': Z}, [None, Y, Z]), ({'x': X, 'y': None, 'z': None}, [X, None, None])],
    }
    for fmt, runs in fmts.items():
        res = []
        for val, want in runs:
            res += run_construct_options(dict(center_on_edge=val), want)
        clause(col, f'every_direction_receives_the_requested_centre_switch_whatever_its_value/{fmt}', res, arrives('center_on_edge', same_switch), select=rets)
        clause(col, f'a_centre_switch_is_no_error/{fmt}', res, noerr)
    # canaries: the switches are really told apart / really looked at (a shape the clause does not recognise refutes nothing and proves nothing)
    def wrong(r):
        g = arrives('center_on_edge', same_switch)(r)
        return g if isinstance(g, bool) or z3.is_expr(g) else False
    res = run_construct_options(dict(center_on_edge=(X, Y, Z)), [Y, X, Z])
    canary(col, 'canary/x_and_y_switch_swapped/tuple', res, wrong, select=rets)
    res = run_construct_options(dict(center_on_edge=X), [True, True, True])
    canary(col, 'canary/switch_always_on/bool', res, wrong, select=rets)

    # ---- the other direction-specific keyword options in their scalar and common forms (positive numbers) ------------------
    PPSI, PPSR, LIM = z3.Int('min_width_pps_int'), z3.Real('min_width_pps_real'), z3.Real('min_width_limit')
    A, B = z3.Reals('common_a common_b')
    pre = [PPSI > 0, PPSR > 0, LIM > 0]
    for name, vals in (('min_width_pps', (('int', PPSI), ('float', PPSR))), ('min_width_limits', (('float', LIM),))):
        for typ, v in vals:
            res = run_construct_options({name: v}, [v, v, v])
            clause(col, f'a_positive_scalar_reaches_every_direction/{name}/{typ}', res, arrives(name, same_number), pre, select=rets)
    for name in ('distance', 'stretching', 'min_width_limits'):
        res = run_construct_options({name: [A, B]}, [[A, B]] * 3)
        clause(col, f'a_common_pair_reaches_every_direction/{name}', res, arrives(name, same_pair), select=rets)
    col.satisfiable('hypotheses_satisfiable', pre)
    return col.pack()


def replay_switch(d):
    from . import c16_concrete
    import emg3d
    return ob.guarded(c16_concrete.option_formats, emg3d.meshes)


# ---------------------------------------------------------------------------------------------
# closed forms: skin depth, wavelength, minimum cell width, property expansion
# ---------------------------------------------------------------------------------------------

def _clip(it, f, args, kw, node):
    x, lo, hi = (cx.R(a) for a in args[:3])
    return mn(mx(x, lo), hi)


def task_formulas():
    import math
    from .cxutil import UNRECOGNISED
    from pyvc import prelude
    col = ob.Collector(PROP, 'meshes/closed-forms')
    col.default_replay = replay
    for q in ('skin_depth', 'wavelength', 'cell_width'):
        col.function(f'meshes.{q}')
    SIG, MUR, PPS, L0, L1, DEL = z3.Reals('sigma mu_r pps limit0 limit1 delta')
    SQRT = prelude.PW['sqrt']
    MU0 = prelude.CONSTS['sp.constants.mu_0']
    PI = cx.R(math.pi)
    absf = z3.If(FREQ >= 0, FREQ, -FREQ)
    pre = [SIG > 0, MUR > 0, MU0 > 0, PPS > 0, DEL > 0, L0 > 0, L0 <= L1]

    res = cx.run_function('meshes.skin_depth', lambda ctx: ([FREQ, SIG], dict(mu_r=MUR), {}), pc0=pre + [FREQ != 0], summaries={}, opts={})
    base = 1 / SQRT(PI * absf * SIG * (MUR * MU0))

    def sd(r):
        if r.outcome != 'return' or not cx.is_sym(r.value):
            return False
        return r.value == z3.If(FREQ < 0, base / cx.R(math.sqrt(2 * math.pi)), base)
    clause(col, 'skin_depth_is_one_over_sqrt_pi_f_sigma_mu__laplace_divided_by_sqrt_2pi', res, sd, pre + [FREQ != 0])
    canary(col, 'canary/skin_depth_without_laplace_scaling', res, lambda r: r.value == base, pre + [FREQ != 0])

    res = cx.run_function('meshes.wavelength', lambda ctx: ([DEL], {}, {}), pc0=pre, summaries={}, opts={})
    clause(col, 'wavelength_is_two_pi_skin_depths', res, lambda r: r.outcome == 'return' and r.value == 2 * PI * DEL, pre)

    for fmt in ('none', 'one', 'two'):
        lim = {'none': None, 'one': [L0], 'two': [L0, L1]}[fmt]

        def mk(ctx, lim=lim):
            ctx.opts.setdefault('prelude', {}).update({'np.clip': _clip})
            return [DEL, PPS, list(lim) if lim is not None else None], {}, {}
        res = cx.run_function('meshes.cell_width', mk, pc0=pre, summaries={}, opts={})

        def cw(r):
            if r.outcome != 'return':
                return False
            v = r.value
            if fmt == 'none':
                return cx.is_sym(v) and v == DEL / PPS
            if fmt == 'one':
                return isinstance(v, cx.Vec) and len(v) == 1 and cx.R(v[0]) == L0
            return cx.is_sym(v) and z3.And(v >= L0, v <= L1, z3.Implies(z3.And(DEL / PPS >= L0, DEL / PPS <= L1), v == DEL / PPS),
                                           z3.Implies(DEL / PPS < L0, v == L0), z3.Implies(DEL / PPS > L1, v == L1))
        clause(col, f'cell_width_is_skin_depth_per_pps_within_limits/limits={fmt}', res, cw, pre)

    # property expansion inside origin_and_widths: [p] -> [p,p,p]; [p1,p2] -> [p1,p2,p2]; [p1,p2,p3] as given
    for L in (1, 2, 3):
        P = [z3.Real(f'p{i}') for i in range(L)]

        def mk(ctx, P=P):
            ctx.opts.setdefault('prelude', {}).update(VEC_PRELUDE)
            pm = cx.Obj('MapConductivity', {}, mod='maps')
            return [FREQ, list(P), CEN], dict(domain=[D0, D1], mapping=pm, center_on_edge=True), {}
        summs = base_summaries()
        res = cx.run_function('meshes.origin_and_widths', mk, pc0=[DMIN > 0], summaries=summs, opts=dict(loop_hook=_stop_at_first_loop))

        def ca(r):
            if r.outcome != 'stop':
                return False
            want = expand_props(P)
            skin = [e for e in r.events if e['kind'] == 'call' and e['name'] == 'meshes.skin_depth']
            if len(skin) != 1 or len(skin[0]['args']) < 2:
                return UNRECOGNISED('skin depth is not obtained by one call skin_depth(frequency, conductivities)')
            c = skin[0]['args'][1]
            return isinstance(c, (cx.Vec, list)) and [str(x) for x in c] == [str(x) for x in want] and skin[0]['args'][0] is FREQ
        clause(col, f'properties_expand_to_minwidth_negative_positive/{L}', res, ca, [DMIN > 0])
    return col.pack()


# ---------------------------------------------------------------------------------------------
# _seasurface: the sea surface is a node of what is returned, or a UserWarning says it is not
# ---------------------------------------------------------------------------------------------

def run_seasurface(vec, lim):
    from .cxutil import generic_for_loops

    def keep(name):
        def h(it, f, args, kw, node):
            o = cx.Opaque(name, [a for a in args if isinstance(a, cx.Opaque)])
            o.fn_args = list(args)
            it.ctx.event('kept', name=name, obj=o)
            return o
        return h

    def mk(ctx):
        ctx.opts.setdefault('prelude', {}).update({'np.cumsum': keep('np.cumsum'), 'builtins.abs': keep('abs'), 'builtins.min': keep('min'),
                                                   'np.isclose': keep('np.isclose')})
        e = cx.NDArr(cx.Store('edges'))
        w = cx.NDArr(cx.Store('widths'))
        v = cx.NDArr(cx.Store('vector')) if vec else None
        sea = cx.Opaque('seasurface')
        return [e, w, CEN, sea, [S0, S1], v, lim], {}, dict(e=e, w=w, sea=sea)
    orig_getitem = cx.Interp.getitem

    def getitem(self, v, k, node=None):
        if isinstance(v, cx.LibFn) and v.name.endswith('.r_'):
            o = cx.Opaque('np.r_')
            o.fn_args = list(k) if isinstance(k, tuple) else [k]
            return o
        return orig_getitem(self, v, k, node)
    orig_binop = cx.Interp.binop

    def binop(self, op, a, b, node=None):
        r = orig_binop(self, op, a, b, node)
        if isinstance(r, (cx.Opaque, cx.NDArr)) and not hasattr(r, 'fn_args'):
            try:
                r.fn_args = [a, b]
            except AttributeError:
                pass
        return r
    cx.Interp.getitem = getitem
    cx.Interp.binop = binop
    try:
        return cx.run_function('meshes._seasurface', mk, pc0=[], summaries={}, opts=dict(loop_hook=generic_for_loops({})))
    finally:
        cx.Interp.getitem = orig_getitem
        cx.Interp.binop = orig_binop


def _sources(o, seen=None):
    """objects a value was computed from (through the recorded operand lists)"""
    seen = seen if seen is not None else {}
    if id(o) in seen:
        return seen
    seen[id(o)] = o
    for a in getattr(o, 'fn_args', []) or []:
        _sources(a, seen)
    for a in getattr(o, 'deps', ()) or ():
        _sources(a, seen)
    eo = getattr(o, 'elem_of', None)
    if isinstance(eo, tuple):
        seen[('store', id(eo[0]))] = eo[0]
    elif eo is not None:
        _sources(eo, seen)
    return seen


def task_seasurface():
    col = ob.Collector(PROP, 'meshes._seasurface')
    col.default_replay = replay
    col.function('meshes._seasurface')
    for vec in (False, True):
        for lim in (None, [z3.Real('lim0')], [z3.Real('lim0'), z3.Real('lim1')]):
            res = run_seasurface(vec, lim)
            tag = f'vector={vec}/limits={len(lim) if lim else None}'
            rets = lambda r: r.outcome == 'return'
            clause(col, f'returns_edges_and_widths/{tag}', res, lambda r: isinstance(r.value, tuple) and len(r.value) == 2, select=rets)

            def warn_iff(r):
                warned = [e for e in r.events if e['kind'] == 'libcall' and e['name'] == 'warnings.warn']
                notclose = any(str(c).startswith('Not(truth_np.isclose') for c in r.pc)
                close = any(str(c).startswith('truth_np.isclose') for c in r.pc)
                if not (close or notclose):
                    from .cxutil import UNRECOGNISED
                    return UNRECOGNISED('the final test is not a truth test of np.isclose(...)')
                return (len(warned) == 1 and getattr(warned[0]['args'][1], 'name', None) == 'UserWarning') if notclose else not warned
            clause(col, f'user_warning_exactly_when_seasurface_is_not_close_to_a_node/{tag}', res, warn_iff, select=rets)

            def tested_nodes(r):
                calls = [o for o in _all_opaques(r) if o.tag == 'np.isclose']
                if len(calls) != 1:
                    from .cxutil import UNRECOGNISED
                    return UNRECOGNISED('the final test is not one call of np.isclose')
                a = calls[0].fn_args
                if not (a[0] == 0.0 and isinstance(a[1], cx.Opaque) and a[1].tag == 'min'):
                    return False
                src = _sources(a[1])
                e, w = r.value
                has = lambda x: (id(x) in src) or (isinstance(x, cx.NDArr) and ('store', id(x.store)) in src) or \
                    (isinstance(x, cx.NDArr) and any(isinstance(y, cx.NDArr) and y.store is x.store for y in src.values()))
                return has(e) and has(w) and id(r.state['sea']) in src
            clause(col, f'the_tested_nodes_are_built_from_the_returned_edges_and_widths_and_the_seasurface/{tag}', res, tested_nodes, select=rets)
            clause(col, f'inputs_are_not_modified/{tag}', res,
                   lambda r: not any(m['store'] is r.state['e'].store or m['store'] is r.state['w'].store for m in r.mutations()), select=rets)
    return col.pack()


def _all_opaques(r):
    return [e['obj'] for e in r.events if e['kind'] == 'kept']


# ---------------------------------------------------------------------------------------------
# the statement as a lemma over the contracts above
# ---------------------------------------------------------------------------------------------

def task_composition():
    col = ob.Collector(PROP, 'composition')
    a0, a1, suma, fa, la = z3.Reals('stage1_origin stage1_end stage1_sum stage1_first stage1_last')
    b0, b1 = z3.Reals('stage2_origin stage2_end')
    c0, c1 = z3.Reals('comp0 comp1')
    nx, n2, rem2 = z3.Ints('nx stage2_count stage2_remain')
    w0, w1 = LF * WLEN(SD[1]), LF * WLEN(SD[2])
    # contract of _stretch, first call (edges = centre part, domain = survey domain), result not False
    stage1 = [a0 <= D0, a1 >= D1, suma == a1 - a0, fa > 0, la > 0]
    # precondition of the second call is established by the first
    col.lia('second_stretch_precondition_follows_from_first_postcondition', stage1, z3.And(fa > 0, la > 0, suma == a1 - a0))
    # contract of _stretch, second call (edges = stage 1, domain = computational domain, use_up), result not False
    stage2 = [b0 <= a0, b0 <= c0, b1 >= a1, b1 >= c1, n2 == nx - rem2, rem2 == 0]
    comp = [c0 == D0 - mn(w0, MB), c1 == D1 + mn(w1, MB)]
    col.lia('mesh_covers_survey_domain_plus_capped_wavelength_buffer', stage1 + stage2 + comp,
            z3.And(b0 <= D0, b1 >= D1, b0 <= D0 - mn(w0, MB), b1 >= D1 + mn(w1, MB)))
    col.lia('cell_count_is_the_current_permitted_number', stage1 + stage2, n2 == nx)
    col.canary_lia('canary/coverage_without_first_stage', stage2 + comp, z3.And(b0 <= D0, b1 >= D1))
    col.satisfiable('contract_hypotheses_satisfiable', stage1 + stage2 + comp + [MB > 0])
    return col.pack()


def task_concrete(part=0, of=1):
    import os
    from . import c16_concrete
    col = ob.Collector(PROP, 'concrete')
    seed = int(os.environ.get('VERIF_SEED', '0'))
    tier = os.environ.get('VERIF_TIER', 'quick')
    r = ob.guarded(c16_concrete.check, tier, seed, part, of)
    col.concrete(f'all_stated_postconditions_on_origin_and_widths_and_construct_mesh/part{part + 1}of{of}', r['reproduced'] is False, r,
                 bounded='frequencies (incl. Laplace) x property lists of 1,2,3 (and 3,4,7 via construct_mesh) in six mappings x domain/distance/vector x '
                         'stretching pairs x buffer options x centre switches x width limits x sea surfaces; required buffer computed independently',
                 cases=r.get('cases', 0))
    return col.pack()


def task_estimate():
    import os
    from . import c16_concrete
    col = ob.Collector(PROP, 'concrete')
    col.function('meshes.estimate_gridding_opts')
    r = ob.guarded(c16_concrete.estimate_opts, os.environ.get('VERIF_TIER', 'quick'), int(os.environ.get('VERIF_SEED', '0')))
    col.concrete('estimate_gridding_opts_hands_on_given_options_and_its_domain_and_mesh_cover_the_survey', r['reproduced'] is False, r,
                 bounded='random models (4 mappings, isotropic / VTI) x surveys (1-3 sources, 1-4 receivers, 1-3 frequencies): 6 (quick) / 30 (thorough)',
                 cases=r.get('cases', 0))
    return col.pack()


def tasks(tier):
    t = [('contracts.c16', n, {}) for n in ('task_prefix', 'task_search', 'task_construct', 'task_option_formats', 'task_formulas', 'task_seasurface', 'task_composition', 'task_estimate')]
    of = 4 if tier == 'quick' else 12
    t += [('contracts.c16', 'task_concrete', dict(part=k, of=of)) for k in range(of)]
    t += [('contracts.c16_stretch', n, {}) for n in ('task_lemmas', 'task_stretch')]
    return t


LEVEL = ('Proof along the call chain: construct_mesh routing and loud failure (all paths), centre switches in every documented format and of either value reach their direction; origin_and_widths prefix (survey domain, centre part, computational domain = '
         'domain -/+ min(lambda_factor*wavelength, max_buffer) or the from-centre variant) and search nest (loop invariant, any iteration counts): a returned grid is a '
         'successful use_up _stretch over the computational domain of a successful _stretch over the survey domain for the current permitted cell number, else '
         'RuntimeError/None; _stretch for every nx and every centre part on symbolic sequences (cell count, coverage, geometric structure, positivity; induction lemmas '
         'for powers and prefix sums); _seasurface warns exactly when the tested nodes of the returned part miss the sea surface; closed forms. '
         'The statement follows as a lemma over these contracts. Bounded: all postconditions on the real functions for a lattice of inputs.')
ASSUMPTIONS = ['numpy on small vectors / sequences: np.min/np.max(axis=0), np.diff, np.r_, np.cumsum, np.sum, np.arange, slicing, np.floor/np.ceil have their documented element-wise meaning',
               'np.linspace(a, b, n) yields values between a and b; np.unique(x) yields elements of x (the search only ever uses elements of these sequences)',
               'vector cut (np.where on the user vector) and the retention of vector nodes: bounded concrete check only',
               '_seasurface: the search for the extra cells (brentq) is outside the proof; its result is covered by the node-or-warning clause and the bounded check; '
               'growth bound inside the sea-surface part: bounded concrete check only',
               'estimate_gridding_opts (defaults from model and survey): bounded concrete check only (options handed on, domain and mesh cover the survey)',
               'MapConductivity.backward is the identity (other mappings: bounded concrete check)']
