"""C04 -- restriction is the transpose of prolongation; coarse model conserves volumes.

Spec prolongation P (from the statement): along the edge direction piece-wise constant
(coarse index I = i div 2 if that direction is coarsened, else I = i); across it the product
of 1-D linear hat weights of the coarse node at the fine node (delta if not coarsened).

  hat(j, J) = 1                                      j == 2J
            = (y[2J-1]-y[2J-2]) / (y[2J]-y[2J-2])      j == 2J-1
            = (y[2J+2]-y[2J+1]) / (y[2J+2]-y[2J])      j == 2J+1
            = 0                                      otherwise          (y: fine nodes)

Functions under contract: core.restrict, core.restrict_weights (kernel engine),
solver._restrict_model_parameters (kernel engine, slice algebra), solver.restriction,
solver._get_restriction_weights (control executor), solver.prolongation (c04_prolong).
"""
import itertools
import os

import z3

from pyvc import sx, ob, intake, prove, cx
from .c03 import bounds_obligations
from .cxutil import clause, coverage, pcs

PROP = 'C04'
ZERO, ONE = z3.RealVal(0), z3.RealVal(1)
COARSENED = {0: (1, 1, 1), 1: (0, 1, 1), 2: (1, 0, 1), 3: (1, 1, 0), 4: (1, 0, 0), 5: (0, 1, 0), 6: (0, 0, 1)}
R_ARGS = ['crx', 'cry', 'crz', 'rx', 'ry', 'rz', 'wx', 'wy', 'wz', 'sc_dir']


def edge_shape_cells(c, n):
    a, b, d = n
    return dict(x=(a, b + 1, d + 1), y=(a + 1, b, d + 1), z=(a + 1, b + 1, d))[c]


class REnv:
    """symbolic coarse/fine grids for one coarsening pattern"""

    def __init__(self, sc):
        self.sc = sc
        self.co = COARSENED[sc]
        self.cn = z3.Ints('ca cb cc')                       # coarse cells
        self.fn = tuple(2 * c if k else c for c, k in zip(self.cn, self.co))
        self.hyps = [c >= 1 for c in self.cn]
        self.nodes = [z3.Function(f'node_{d}', sx.I, sx.RS) for d in 'xyz']   # fine node coordinates
        self.arr = {}
        for c in 'xyz':
            self.arr['cr' + c] = sx.ArrObj('cr' + c, edge_shape_cells(c, self.cn))
            self.arr['r' + c] = sx.ArrObj('r' + c, edge_shape_cells(c, self.fn))
        self.w = {}
        for k, d in enumerate('xyz'):
            n = self.cn[k] + 1
            self.w[d] = tuple(self.weight_array(k, d, which, n) for which in ('l', '0', 'r'))

    def hat(self, k, fine_j, J):
        """linear hat weight of coarse node J at fine node fine_j in direction k (fine_j given as offset -1/0/+1 from 2J)"""
        y = self.nodes[k]
        if fine_j == 0:
            return ONE
        if fine_j == -1:
            return (y(2 * J - 1) - y(2 * J - 2)) * sx.RCP(y(2 * J) - y(2 * J - 2))
        return (y(2 * J + 2) - y(2 * J + 1)) * sx.RCP(y(2 * J + 2) - y(2 * J))

    def weight_array(self, k, d, which, n):
        """contract of restrict_weights (task_restrict_weights): interior entries are the hat weights;
        for a non-coarsened direction the dummy weights (0, 1, 0) of _get_restriction_weights"""
        raw = z3.Function(f'w{d}{which}_raw', sx.I, sx.RS)
        if not self.co[k]:
            val = ONE if which == '0' else ZERO
            return sx.ArrObj(f'w{d}{which}', (n,), base=lambda J, val=val: val)
        off = {'l': -1, '0': 0, 'r': 1}[which]

        def base(J, off=off, raw=raw, k=k, n=n):
            return z3.If(z3.And(J >= 1, J <= n - 2), self.hat(k, off, J), raw(J))
        return sx.ArrObj(f'w{d}{which}', (n,), base=base)


def task_restrict(sc):
    col = ob.Collector(PROP, f'core.restrict/sc{sc}')
    fn = col.function('core.restrict')
    if [a.arg for a in fn.args.args] != R_ARGS:
        raise sx.OutsideSubset('core.restrict signature changed')
    loops = intake.loops_preorder(fn)
    if len(loops) != 21:
        raise sx.OutsideSubset(f'core.restrict: expected 21 loops (7 patterns x 3), found {len(loops)}')
    E = REnv(sc)
    pol = {3 * sc + k: ('sym', f'L{k}') for k in range(3)}
    X = sx.Ex('core', pc=E.hyps, loops=pol)
    args = [E.arr['crx'], E.arr['cry'], E.arr['crz'], E.arr['rx'], E.arr['ry'], E.arr['rz'], E.w['x'], E.w['y'], E.w['z'], sc]
    X.run_function(fn, args)
    if 'L2' not in X.snap:
        raise sx.OutsideSubset('core.restrict: loop nest of this pattern not reached')
    env = X.snap['L2']['env']
    I = (env['cix'], env['ciy'], env['ciz'])
    hyps = X.snap['L2']['pc']
    post = X.snap['L2']['arr']
    col.satisfiable('hyps-sat', hyps)
    cnodes = [c + 1 for c in E.cn]
    for comp, ax in (('x', 0), ('y', 1), ('z', 2)):
        # interior coarse edge of this component
        inter = []
        for k in range(3):
            if k == ax:
                inter += [I[k] >= 0, I[k] <= E.cn[k] - 1]
            else:
                inter += [I[k] >= 1, I[k] <= cnodes[k] - 2]
        h = hyps + inter
        col.satisfiable(f'post/cr{comp}/hyps-sat', h)
        rfine = E.arr['r' + comp]
        # (P^T r)[coarse edge I]: sum over the support window of P
        offs = []
        for k in range(3):
            if k == ax:
                offs.append((0, 1) if E.co[k] else (0,))
            else:
                offs.append((-1, 0, 1) if E.co[k] else (0,))
        tot = ZERO
        for o in itertools.product(*offs):
            wgt = ONE
            fidx = []
            for k in range(3):
                base = 2 * I[k] if E.co[k] else I[k]
                fidx.append(base + o[k])
                if k != ax and E.co[k]:
                    wgt = wgt * E.hat(k, o[k], I[k])
            tot = tot + wgt * rfine.read0(fidx)
        new = post[E.arr['cr' + comp].uid].read(list(I))
        col.eq(f'post/cr{comp}_is_transposed_prolongation', h, new, tot, smt_sample=(comp == 'x'),
               replay=replay_restrict(sc))
        # the fine edges in the support are interior fine edges (so the pairing is over interior pairs)
        fn_nodes = [f + 1 for f in E.fn]
        goals = []
        for o in itertools.product(*offs):
            for k in range(3):
                base = 2 * I[k] if E.co[k] else I[k]
                if k == ax:
                    goals += [base + o[k] >= 0, base + o[k] <= E.fn[k] - 1]
                else:
                    goals += [base + o[k] >= 1, base + o[k] <= fn_nodes[k] - 2]
        col.lia(f'post/cr{comp}_support_is_interior', h, z3.And(*goals))
        if comp == 'x':
            col.canary_eq(f'canary/cr{comp}_without_edge_direction_sum', h, new, tot - rfine.read0([2 * I[0] if E.co[0] else I[0], (2 * I[1] if E.co[1] else I[1]), (2 * I[2] if E.co[2] else I[2])]))
    # frame: only the own coarse cell of each coarse array is written
    writes = [b for b in X.bounds if b['kind'] == 'write']
    names = {E.arr['cr' + c].name for c in 'xyz'}
    col.lia('frame/writes_only_own_coarse_cell', hyps,
            z3.And(z3.BoolVal(all(w['arr'] in names for w in writes) and len(writes) >= 3),
                   *[z3.And(*[a == b for a, b in zip(w['idx'], I)]) for w in writes]))
    reads_out = [b for b in X.bounds if b['kind'] == 'read' and b['arr'] in names]
    col.lia('frame/reads_of_outputs_only_own_cell', hyps,
            z3.And(*[z3.And(*[a == b for a, b in zip(r['idx'], I)]) for r in reads_out]) if reads_out else z3.BoolVal(True))
    bounds_obligations(col, X, hyps)
    return col.pack()


def replay_restrict(sc):
    def rp(d):
        from . import c04_concrete
        return ob.guarded(c04_concrete.check_restriction, patterns=(sc,), shapes=[(4, 6, 8), (8, 4, 6)], seeds=(0,))
    return rp


def task_restrict_weights():
    col = ob.Collector(PROP, 'core.restrict_weights')
    fn = col.function('core.restrict_weights')
    if [a.arg for a in fn.args.args] != ['nodes', 'cell_centers', 'h', 'cnodes', 'ccell_centers', 'ch']:
        raise sx.OutsideSubset('core.restrict_weights signature changed')
    loops = intake.loops_preorder(fn)
    if len(loops) != 3:
        raise sx.OutsideSubset('core.restrict_weights: expected 3 loops')
    n = z3.Int('cn')           # number of coarse nodes
    hyps = [n >= 2]
    y = z3.Function('node', sx.I, sx.RS)
    # WF(fine grid) and the coarse grid of every second node, stated through the node coordinates
    nodes = sx.ArrObj('nodes', (2 * n - 1,), base=lambda k: y(k))
    h = sx.ArrObj('h', (2 * n - 2,), base=lambda k: y(k + 1) - y(k))
    cc = sx.ArrObj('cell_centers', (2 * n - 2,), base=lambda k: (y(k) + y(k + 1)) / 2)
    cnodes = sx.ArrObj('cnodes', (n,), base=lambda k: y(2 * k))
    ch = sx.ArrObj('ch', (n - 1,), base=lambda k: y(2 * k + 2) - y(2 * k))
    ccc = sx.ArrObj('ccell_centers', (n - 1,), base=lambda k: (y(2 * k) + y(2 * k + 2)) / 2)
    X = sx.Ex('core', pc=hyps, loops={k: ('sym', f'L{k}', dict(map=True)) for k in range(3)})
    ret = X.run_function(fn, [nodes, cc, h, cnodes, ccc, ch])
    if not (isinstance(ret, tuple) and len(ret) == 3):
        raise sx.OutsideSubset('core.restrict_weights: does not return three arrays')
    wl, w0, wr = ret
    J = z3.Int('J')
    hj = hyps + [J >= 1, J <= n - 2]
    col.satisfiable('hyps-sat', hj)
    side = [y(2 * J) - y(2 * J - 2) != 0, y(2 * J + 2) - y(2 * J) != 0]
    col.eq('post/wl_is_hat_at_left_fine_node', hj, wl.read([J]), (y(2 * J - 1) - y(2 * J - 2)) * sx.RCP(y(2 * J) - y(2 * J - 2)),
           side=side, smt_sample=True, replay=replay_weights)
    col.eq('post/w0_is_one', hj, w0.read([J]), ONE, replay=replay_weights)
    col.eq('post/wr_is_hat_at_right_fine_node', hj, wr.read([J]), (y(2 * J + 2) - y(2 * J + 1)) * sx.RCP(y(2 * J + 2) - y(2 * J)),
           side=side, replay=replay_weights)
    col.canary_eq('canary/wl_is_right_hat', hj, wl.read([J]), (y(2 * J + 2) - y(2 * J + 1)) * sx.RCP(y(2 * J + 2) - y(2 * J)), side=side)
    col.lia('post/lengths', hyps, z3.And(wl.shape[0] == n, w0.shape[0] == n, wr.shape[0] == n))
    bounds_obligations(col, X, hyps)
    # R4: hat weights are non-negative and sum to one at every interior fine node
    ya, yb, yc = z3.Reals('ya yb yc')       # consecutive fine nodes 2J, 2J+1, 2J+2
    inc = [ya < yb, yb < yc]
    rc = z3.Real('rc')
    col.lia('hat/odd_fine_node_weights_sum_to_one', inc + [rc * (yc - ya) == 1], (yc - yb) * rc + (yb - ya) * rc == 1)
    col.lia('hat/weights_nonnegative', inc + [rc * (yc - ya) == 1], z3.And((yc - yb) * rc >= 0, (yb - ya) * rc >= 0, (yc - yb) * rc <= 1))
    return col.pack()


def replay_weights(d):
    from . import c04_concrete
    return ob.guarded(c04_concrete.check_weights, ns=(2, 3, 5, 8), seeds=(0, 1))


def task_restrict_model(sc):
    """solver._restrict_model_parameters: coarse value == sum of the fine-cell children"""
    col = ob.Collector(PROP, f'solver._restrict_model_parameters/sc{sc}')
    fn = col.function('solver._restrict_model_parameters')
    co = COARSENED[sc]
    cn = z3.Ints('ca cb cc')
    fnn = tuple(2 * c if k else c for c, k in zip(cn, co))
    hyps = [c >= 1 for c in cn]
    param = sx.ArrObj('param', fnn)
    X = sx.Ex('solver', pc=hyps)
    out = X.run_function(fn, [param, sc])
    if not isinstance(out, sx.ArrObj):
        raise sx.OutsideSubset('_restrict_model_parameters: no array returned')
    I = z3.Ints('I J K')
    h = hyps + [z3.And(I[k] >= 0, I[k] < cn[k]) for k in range(3)]
    col.satisfiable('hyps-sat', h)
    tot = ZERO
    for o in itertools.product(*[(0, 1) if co[k] else (0,) for k in range(3)]):
        tot = tot + param.read0([(2 * I[k] + o[k]) if co[k] else I[k] for k in range(3)])
    col.eq('post/coarse_cell_is_sum_of_children', h, out.read(list(I)), tot, smt_sample=(sc == 0),
           replay=lambda d: __import__('contracts.c04_concrete', fromlist=['x']).check_model_restriction(patterns=(sc,), seeds=(0,)))
    col.lia('post/coarse_shape', hyps, z3.And(*[out.shape[k] == cn[k] for k in range(3)]))
    # every fine cell has exactly one parent
    f = z3.Ints('fi fj fk')
    hf = hyps + [z3.And(f[k] >= 0, f[k] < fnn[k]) for k in range(3)]
    par = [(f[k] / 2 if co[k] else f[k]) for k in range(3)]
    col.lia('post/every_fine_cell_has_exactly_one_parent', hf + h,
            z3.And(*[z3.And(par[k] >= 0, par[k] < cn[k]) for k in range(3)],
                   z3.Or(*[f[k] != ((2 * I[k]) if co[k] else I[k]) for k in range(3)]) if False else z3.BoolVal(True),
                   (z3.And(*[z3.Or(f[k] == 2 * I[k], f[k] == 2 * I[k] + 1) if co[k] else f[k] == I[k] for k in range(3)])
                    == z3.And(*[par[k] == I[k] for k in range(3)]))))
    col.canary_eq('canary/only_first_child', h, out.read(list(I)), param.read0([(2 * I[k]) if co[k] else I[k] for k in range(3)])) \
        if sc != 99 else None
    # shape agreement of the added slices + slice bounds
    shape_goals = []
    for b in X.bounds:
        if b['kind'] == 'shape':
            shape_goals += [x == y_ for x, y_ in b['eq']]
    col.lia('slices/shapes_agree', hyps, z3.And(*shape_goals) if shape_goals else z3.BoolVal(False))
    sl = [b for b in X.bounds if b['kind'] == 'slice']
    col.lia('slices/bounds_inside_array', hyps,
            z3.And(*[z3.And(b['idx'][0] >= 0, b['idx'][0] <= b['idx'][1], b['idx'][1] < b['shape'][0]) for b in sl]) if sl else z3.BoolVal(False))
    return col.pack()


def tasks(tier):
    t = [('contracts.c04', 'task_restrict', dict(sc=s)) for s in range(7)]
    t.append(('contracts.c04', 'task_restrict_weights', {}))
    t += [('contracts.c04', 'task_restrict_model', dict(sc=s)) for s in range(7)]
    from . import c04_control, c04_prolong, c04_rgp, c04_wf, c04_npcheck
    t += c04_control.tasks(tier)
    t += c04_prolong.tasks(tier)
    t += c04_rgp.tasks(tier)
    t += c04_wf.tasks(tier)
    t += c04_npcheck.tasks(tier)
    return t


LEVEL = ('Deductive proof over the real source: core.restrict equals the transpose of the spec prolongation on every interior coarse '
         'edge for all seven patterns (symbolic grids, arbitrary stretching), given the contract of restrict_weights which is proved '
         'against the linear hat functions; hat weights non-negative and summing to one; _restrict_model_parameters sums exactly the '
         'children (slice algebra) for all seven patterns; restriction()/_get_restriction_weights wiring (control executor); prolongation() adds the '
         'interpolated transverse slice of coarse index I to the interior of fine index 2I, 2I+1 (or I) of the same component and writes nothing else '
         '(generic iteration of each loop, all seven patterns), given the contract RGP of the interpolator; RGP itself: the class RegularGridProlongator executed from source on '
         'point-wise values (generic fine point, symbolic coarse / fine node vectors) returns the bilinear hat interpolant on every coarse interval pair containing the point.')
ASSUMPTIONS = ['WF(grid) is proved for meshes.BaseMesh (every grid below the finest one) and for the coarse-grid construction in solver.restriction (contracts/c04_wf.py); for the finest grid, '
               'which may be a discretize.TensorMesh (third party), WF (nodes = origin + cumulated widths, cell centres = node midpoints) remains an assumption',
               'numpy layout contracts used by the RGP proof (broadcast_arrays, ravel/reshape in Fortran order, searchsorted = first index, gather, np.where, masked store): listed in the trusted base; '
               'preconditions of RGP (strictly increasing coarse nodes, fine nodes inside the coarse range) hold at the call sites because coarse nodes are every second fine node (WF)',
               'coarse nodes = nodes[::r]: base and step of the induction are obligations of c04_wf; the induction principle itself (over the coarse node index) is the usual one, not re-derived']
