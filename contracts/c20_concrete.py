"""Concrete cross-check / replay for C20 on the real emg3d.time.Fourier."""
import itertools

import numpy as np


def check(tier='quick', seed=0):
    import emg3d
    import empymod
    rng = np.random.default_rng(seed)
    cases = 0

    def fail(**kw):
        kw.update(reproduced=True, cases=cases, how='contracts.c20_concrete.check on the real emg3d.time.Fourier')
        return kw
    times = [np.logspace(-2, 1, 11), np.array([0.1, 1.0, 5.0])]
    trafos = [('dlf', {'dlf': 'key_81_2009', 'pts_per_dec': -1}), ('dlf', {'dlf': 'key_201_2012', 'pts_per_dec': 10}), ('fftlog', {'pts_per_dec': 5, 'add_dec': [-2, 2], 'q': 0})]
    if tier == 'quick':
        times, trafos = times[:1], trafos
    for time, (ft, ftarg), signal in itertools.product(times, trafos, (-1, 0, 1) if tier != 'quick' else (0, 1)):
        base = emg3d.time.Fourier(time=time, fmin=0.01, fmax=100.0, signal=signal, ft=ft, ftarg=ftarg, verb=0)
        req = base.freq_required
        inband = req[(req > 0.02) & (req < 50)]
        bands = [(0.01, 100.0), (0.05, 20.0)]
        if len(inband) > 3:
            bands += [(float(inband[1]), float(inband[-2])), (0.013, float(inband[-1])), (float(inband[0]), 77.0)]
            # limits a hair on the EXCLUDING side of a required frequency (fmin slightly above, fmax slightly below one) and one ulp away
            bands += [(float(inband[1]) * (1 + 1e-7), float(inband[-2]) * (1 - 1e-7)),
                      (float(np.nextafter(inband[2], np.inf)), float(np.nextafter(inband[-3], -np.inf)))]
        coarse = [dict(), dict(every_x_freq=3), dict(input_freq=np.logspace(-2.5, 2.5, 13))]
        for (fmin, fmax), copt in itertools.product(bands, coarse):
            cases += 1
            try:
                F = emg3d.time.Fourier(time=time, fmin=fmin, fmax=fmax, signal=signal, ft=ft, ftarg=ftarg, verb=0, **copt)
            except Exception as e:
                return fail(clause='constructor raised', exception=str(e))
            fr = F.freq_required
            e, i = F.ifreq_extrapolate, F.ifreq_interpolate
            above = fr > fmax
            cnt = e.astype(int) + i.astype(int) + above.astype(int)
            if not np.all(cnt == 1):
                bad = fr[cnt != 1]
                return fail(clause='required frequencies are not split into exactly three disjoint groups', fmin=fmin, fmax=fmax, frequencies=bad.tolist(), groups=cnt[cnt != 1].tolist())
            fc = F.freq_compute
            if len(fc) and (fc.min() < fmin or fc.max() > fmax):
                return fail(clause='computed frequency outside the requested band', fmin=fmin, fmax=fmax, coarse=str(copt),
                            outside=[float(v) for v in fc[(fc < fmin) | (fc > fmax)]])
            fco = F.freq_coarse
            if not np.array_equal(fc, fco[(fco >= fmin) & (fco <= fmax)]):
                return fail(clause='computed frequencies are not exactly the coarse frequencies inside the band', fmin=fmin, fmax=fmax, coarse=str(copt))
            if len(fc) < 2:
                continue
            if copt and len(fc) < 4:
                continue        # SciPy's cubic interpolating spline needs at least four points (its precondition: 'm must be > k')
            data = (rng.standard_normal(fc.size) + 2.5) * np.exp(-fc / 30) + 1j * (-rng.uniform(0.1, 1.0, fc.size)) * fc / (1 + fc)
            try:
                out = F.interpolate(data)
            except Exception as ex:
                return fail(clause='interpolate raised', fmin=fmin, fmax=fmax, coarse=str(copt), exception=f'{type(ex).__name__}: {ex}')
            if out.shape != fr.shape or np.abs(out[above]).max(initial=0) != 0:
                return fail(clause='spectrum above fmax must be zero', fmin=fmin, fmax=fmax)
            # pass-through where computed and required frequencies coincide
            for k, f in enumerate(fc):
                hit = np.where(fr == f)[0]
                if len(hit) and abs(out[hit[0]] - data[k]) > 1e-9 * abs(data[k]):
                    return fail(clause='data at a computed frequency that is also required is not passed through unchanged', frequency=float(f), fmin=fmin, fmax=fmax,
                                coarse=str(copt), got=str(out[hit[0]]), want=str(data[k]))
            # extrapolation: real part stays at the lowest computed value, imaginary part shrinks monotonically to zero
            if e.any():
                fe = fr[e]
                oe = out[e]
                order = np.argsort(fe)
                im = np.abs(oe.imag[order])
                if np.abs(oe.real - data[0].real).max() > 1e-9 * abs(data[0].real) or np.any(np.diff(im) < -1e-15) or im.max() > abs(data[0].imag) * (1 + 1e-12):
                    return fail(clause='extrapolated part: real part constant, imaginary part shrinking monotonically towards zero frequency', fmin=fmin, fmax=fmax)
            # reference transform on the filled spectrum
            td = F.freq2time(data, 500.0)
            ref, _ = empymod.model.tem(out[:, None], np.array(500.0), freq=fr, time=F.time, signal=F.signal, ft=F.ft, ftarg=F.ftarg)
            if not np.allclose(td, np.squeeze(ref), rtol=1e-12, atol=0, equal_nan=True):
                return fail(clause='freq2time differs from the reference transform applied to the filled spectrum', fmin=fmin, fmax=fmax)
    # coarse frequencies of the same NUMBER as the required ones but different values must be interpolated, not passed through
    time = np.logspace(-2, 1, 11)
    req = emg3d.time.Fourier(time=time, fmin=0.01, fmax=100.0, verb=0).freq_required
    for shift in (1.05, 0.97, 'inside'):
        cases += 1
        # 'inside': as many input frequencies as required ones, ALL of them inside the band (so as many are computed as are required)
        inp = req * shift if shift != 'inside' else np.geomspace(0.0101, 99.0, req.size)
        F = emg3d.time.Fourier(time=time, fmin=0.01, fmax=100.0, input_freq=inp, verb=0)
        fc, fi = F.freq_compute, F.freq_interpolate
        smooth = lambda f: np.exp(-f / 10) + 1j * (-f / (1 + f))
        try:
            out = F.interpolate(smooth(fc))
        except Exception as ex:
            return fail(clause='interpolate raised for equal-size input_freq', exception=f'{type(ex).__name__}: {ex}')
        # ... and the time-domain result is the reference transform of that filled spectrum (also when as many frequencies are given as required)
        td = F.freq2time(smooth(fc), 500.0)
        ref, _ = empymod.model.tem(out[:, None], np.array(500.0), freq=F.freq_required, time=F.time, signal=F.signal, ft=F.ft, ftarg=F.ftarg)
        if not np.allclose(td, np.squeeze(ref), rtol=1e-12, atol=0, equal_nan=True):
            return fail(clause='freq2time differs from the reference transform applied to the filled spectrum (as many input frequencies as required ones)',
                        input_freq='freq_required * %s' % shift if shift != 'inside' else 'geomspace inside the band, as many as required', n_given=int(fc.size),
                        n_required=int(F.freq_required.size))
        dev = np.abs(out[F.ifreq_interpolate] - smooth(fi)).max() / np.abs(smooth(fi)).max()
        if dev > 2e-3:
            return fail(clause='band values are neither taken at coinciding frequencies nor interpolated (data written to the wrong frequencies)',
                        input_freq=str(shift), max_rel_deviation_from_smooth_spectrum=float(dev))
    # histories of assignments: the object afterwards behaves like a newly made Fourier of the values it holds now
    spec = lambda f: 1.0 / (1.0 + 1j * f)
    for ft, ftarg in (('dlf', {'dlf': 'key_81_2009', 'pts_per_dec': -1}), ('dlf', {'dlf': 'key_201_2012', 'pts_per_dec': 10}), ('fftlog', {'pts_per_dec': 5, 'add_dec': [-2, 2], 'q': 0})):
        t0 = np.logspace(-2, 1, 11)

        def history_signal():
            F = emg3d.time.Fourier(time=t0.copy(), fmin=0.01, fmax=100.0, signal=0, ft=ft, ftarg=dict(ftarg), verb=0)
            F.signal = -1
            return F, emg3d.time.Fourier(time=t0.copy(), fmin=0.01, fmax=100.0, signal=-1, ft=ft, ftarg=dict(ftarg), verb=0), 'constructed with signal=0, then F.signal = -1'

        def history_signal_then_time():
            t = t0.copy()
            F = emg3d.time.Fourier(time=t, fmin=0.01, fmax=100.0, signal=1, ft=ft, ftarg=dict(ftarg), verb=0)
            F.signal = -1
            F.time = t                        # the very array it holds already
            return F, emg3d.time.Fourier(time=t0.copy(), fmin=0.01, fmax=100.0, signal=-1, ft=ft, ftarg=dict(ftarg), verb=0), 'constructed with signal=1, then F.signal = -1, then F.time = <the same array>'

        def history_time_in_place():
            t = t0.copy()
            F = emg3d.time.Fourier(time=t, fmin=0.01, fmax=100.0, signal=0, ft=ft, ftarg=dict(ftarg), verb=0)
            t *= 5.0                          # the owner edits its array in place ...
            F.time = t                        # ... and assigns it again
            return F, emg3d.time.Fourier(time=t0 * 5.0, fmin=0.01, fmax=100.0, signal=0, ft=ft, ftarg=dict(ftarg), verb=0), 'time array edited in place (t *= 5), then F.time = t'

        def history_arguments():
            F = emg3d.time.Fourier(time=t0.copy(), fmin=0.01, fmax=100.0, signal=-1, verb=0)
            F.fourier_arguments(ft, dict(ftarg))
            return F, emg3d.time.Fourier(time=t0.copy(), fmin=0.01, fmax=100.0, signal=-1, ft=ft, ftarg=dict(ftarg), verb=0), 'constructed with the default transform, then F.fourier_arguments(ft, ftarg)'
        for hist in (history_signal, history_signal_then_time, history_time_in_place, history_arguments):
            cases += 1
            F, G, text = hist()
            if F.freq_required.shape != G.freq_required.shape or not np.allclose(F.freq_required, G.freq_required, rtol=1e-12, atol=0):
                return fail(clause='required frequencies after a history of assignments differ from those of a newly made Fourier of the same values', history=text, transform=ft)
            a, b = F.freq2time(spec(F.freq_compute), 500.0), G.freq2time(spec(G.freq_compute), 500.0)
            if a.shape != b.shape or not np.allclose(a, b, rtol=1e-9, atol=1e-30):
                return fail(clause='freq2time after a history of assignments differs from that of a newly made Fourier of the same values (reference transform of the current signal / times / arguments)',
                            history=text, transform=ft, max_rel_deviation=float(np.max(np.abs(a - b) / np.maximum(np.abs(b), 1e-300))))
    return dict(reproduced=False, cases=cases)
