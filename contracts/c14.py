"""C14 -- the physical model is invariant under the property mapping; chain rule exact.

(a) the six Map* classes: backward(forward(sigma)) == sigma for sigma > 0, forward(backward(p)) == p,
    derivative_chain multiplies by exactly d backward(p)/dp -- the method bodies are read from the current
    source, translated expression by expression into a symbolic term and decided by computer algebra
    (sympy simplification to 0, listed as back end) with an independent 50-digit numeric cross-check.
(b) Model: every path that stores a property passes all(real(conductivity) > 0) and all(isfinite(..))
    (IEEE semantics: NaN fails both), assignment to a property that was None raises (control executor).
(c) VolumeModel depends on the property only through map.backward: C02/models.VolumeModel.
"""
import ast
import os

import sympy as sp
import z3

from pyvc import cx, ob, intake, prelude
from .cxutil import clause

PROP = 'C14'
MAPS = ['MapConductivity', 'MapLgConductivity', 'MapLnConductivity', 'MapResistivity', 'MapLgResistivity', 'MapLnResistivity']
# what the statement says each mapping is (sigma -> p)
SPEC_FORWARD = {
    'MapConductivity': lambda s: s, 'MapLgConductivity': lambda s: sp.log(s, 10), 'MapLnConductivity': lambda s: sp.log(s),
    'MapResistivity': lambda s: 1 / s, 'MapLgResistivity': lambda s: sp.log(1 / s, 10), 'MapLnResistivity': lambda s: sp.log(1 / s),
}


class Unsup(Exception):
    pass


def to_sym(node, env, cls):
    """translate a Python expression of a Map method into a sympy term"""
    if isinstance(node, ast.Constant) and isinstance(node.value, (int, float)):
        return sp.nsimplify(node.value) if float(node.value).is_integer() else sp.Float(node.value)
    if isinstance(node, ast.Name) and node.id in env:
        return env[node.id]
    if isinstance(node, ast.Name):
        # module-level numeric constant of emg3d.maps
        for st in intake.module_ast('maps')[1].body:
            if isinstance(st, ast.Assign) and any(isinstance(t, ast.Name) and t.id == node.id for t in st.targets) \
                    and isinstance(st.value, ast.Constant) and isinstance(st.value.value, (int, float)):
                return to_sym(st.value, env, cls)
    if isinstance(node, ast.UnaryOp) and isinstance(node.op, ast.USub):
        return -to_sym(node.operand, env, cls)
    if isinstance(node, ast.BinOp):
        a, b = to_sym(node.left, env, cls), to_sym(node.right, env, cls)
        if isinstance(node.op, ast.Add):
            return a + b
        if isinstance(node.op, ast.Sub):
            return a - b
        if isinstance(node.op, ast.Mult):
            return a * b
        if isinstance(node.op, ast.Div):
            return a / b
        if isinstance(node.op, ast.Pow):
            return a ** b
    if isinstance(node, ast.Call):
        f = node.func
        if isinstance(f, ast.Attribute) and isinstance(f.value, ast.Name) and f.value.id == 'np' and len(node.args) == 1:
            x = to_sym(node.args[0], env, cls)
            fn = {'log10': lambda u: sp.log(u, 10), 'log': sp.log, 'exp': sp.exp, 'sqrt': sp.sqrt, 'abs': sp.Abs,
                  'reciprocal': lambda u: 1 / u}.get(f.attr)     # (real arithmetic; integer-typed input is covered by the bounded check only)
            if fn is not None:
                return fn(x)
        if isinstance(f, ast.Attribute) and isinstance(f.value, ast.Name) and f.value.id == 'np' and not node.keywords:
            a = [to_sym(x, env, cls) for x in node.args]
            if f.attr == 'clip' and len(a) == 3:
                return sp.Min(sp.Max(a[0], a[1]), a[2])
            if f.attr in ('maximum', 'minimum') and len(a) == 2:
                return (sp.Max if f.attr == 'maximum' else sp.Min)(*a)
        if isinstance(f, ast.Attribute) and isinstance(f.value, ast.Name) and f.value.id == 'self' and f.attr in ('backward', 'forward') \
                and len(node.args) == 1:
            return method_term(cls, f.attr, to_sym(node.args[0], env, cls))
    raise Unsup(f'expression outside the map subset: {ast.unparse(node)}')


def method_body(cls, name):
    node, _, _ = intake.func(f'maps.{cls}.{name}')
    body = intake.strip_doc(node.body)
    params = [a.arg for a in node.args.args]
    return node, body, params


def straight_line(cls, name, body, env):
    """plain assignments to local names (named temporaries) in front of the last statement: evaluated into the environment; comments /
    docstring-like expression statements are skipped.  Returns the last statement."""
    stmts = [b for b in body if not (isinstance(b, ast.Expr) and isinstance(b.value, ast.Constant))]
    for st in stmts[:-1]:
        if isinstance(st, ast.Assign) and len(st.targets) == 1 and isinstance(st.targets[0], ast.Name):
            env[st.targets[0].id] = to_sym(st.value, env, cls)
        else:
            raise Unsup(f'{cls}.{name}: statement outside the map subset: {ast.unparse(st)[:60]}')
    if not stmts:
        raise Unsup(f'{cls}.{name}: empty body')
    return stmts[-1]


def method_term(cls, name, arg):
    node, body, params = method_body(cls, name)
    if len(params) != 2:
        raise Unsup(f'{cls}.{name}: signature')
    env = {params[1]: arg}
    last = straight_line(cls, name, body, env)
    if not isinstance(last, ast.Return) or last.value is None:
        raise Unsup(f'{cls}.{name}: expected assignments to temporaries followed by a return statement')
    return to_sym(last.value, env, cls)


def chain_factor(cls, p):
    node, body, params = method_body(cls, 'derivative_chain')
    if len(params) != 3:
        raise Unsup(f'{cls}.derivative_chain: signature')
    if len(body) == 1 and (isinstance(body[0], ast.Pass) or (isinstance(body[0], ast.Return) and (body[0].value is None or
                           (isinstance(body[0].value, ast.Constant) and body[0].value.value is None)))):
        return sp.Integer(1)
    env = {params[2]: p}
    last = straight_line(cls, 'derivative_chain', body, env)
    if isinstance(last, ast.AugAssign) and isinstance(last.op, ast.Mult) and isinstance(last.target, ast.Name) and last.target.id == params[1] \
            and params[1] not in [k for k in env if k != params[2]]:
        return to_sym(last.value, env, cls)
    raise Unsup(f'{cls}.derivative_chain: expected (temporaries, then) `gradient *= <factor>` (in place) or pass')


def decide_zero(expr, syms, positive):
    """zero-test by computer algebra + independent numeric check at 50 digits; returns (status, detail)"""
    e = sp.simplify(sp.expand_log(sp.simplify(expr), force=True))
    import mpmath
    mpmath.mp.dps = 50
    worst = 0
    for k in range(12):
        vals = {s: (mpmath.mpf(10) ** (k - 6) * mpmath.mpf('1.37') if positive else mpmath.mpf(k - 6) + mpmath.mpf('0.37')) for s in syms}
        v = sp.lambdify(list(syms), expr, 'mpmath')(*[vals[s] for s in syms])
        scale = max([abs(x) for x in vals.values()] + [mpmath.mpf(1)])
        worst = max(worst, abs(v) / scale)
    if e == 0 and worst < mpmath.mpf(10) ** -40:
        return 'proved', f'sympy: 0; max numeric deviation {mpmath.nstr(worst, 3)}'
    if worst > mpmath.mpf(10) ** -30:
        return 'refuted', f'numeric deviation {mpmath.nstr(worst, 5)} at 50 digits; simplified residual: {e}'
    return 'unknown', f'sympy residual {e}, numeric {mpmath.nstr(worst, 3)}'


def task_map(cls):
    col = ob.Collector(PROP, f'maps.{cls}')
    for m in ('forward', 'backward', 'derivative_chain'):
        col.function(f'maps.{cls}.{m}')
    col.trust('sympy 1.14 simplification (computer algebra back end for exp/log identities), cross-checked numerically with mpmath at 50 digits')
    s = sp.Symbol('sigma', positive=True)
    p = sp.Symbol('p', real=True)
    pr = sp.Symbol('rho', positive=True)

    def add(oid, expr, syms, positive, replay=None):
        import time
        t0 = time.time()
        try:
            st, det = decide_zero(expr, syms, positive)
        except Unsup as e:
            st, det = 'unknown', str(e)
        d = col._add(oid, 'vc', dict(status=st, backend='sympy+mpmath', time=round(time.time() - t0, 3), reason=det,
                                     sample=f'{expr} == 0   [{det}]'))
        if st == 'refuted':
            from . import c14_concrete
            d['replay'] = ob.guarded(c14_concrete.check_maps, [cls])
        return d
    try:
        fw = method_term(cls, 'forward', s)
        # domain of p: all reals for the log maps, positive for the two linear ones
        pdom = pr if cls in ('MapConductivity', 'MapResistivity') else p
        bw_p = method_term(cls, 'backward', pdom)
        bw_fw = method_term(cls, 'backward', fw)
        fw_bw = method_term(cls, 'forward', bw_p)
        fac = chain_factor(cls, pdom)
    except Unsup as e:
        col.undecided('method_bodies_in_subset', str(e))
        return col.pack()
    add('forward_is_the_documented_mapping', fw - SPEC_FORWARD[cls](s), [s], True)
    add('backward_after_forward_is_identity_on_positive_conductivities', bw_fw - s, [s], True)
    add('forward_after_backward_is_identity', fw_bw - pdom, [pdom], pdom is pr)
    add('derivative_chain_factor_is_d_backward_dp', fac - sp.diff(bw_p, pdom), [pdom], pdom is pr)
    # canary: the factor with the wrong sign / missing ln(10) must be refuted
    import time
    t0 = time.time()
    st, det = decide_zero(2 * fac - sp.diff(bw_p, pdom), [pdom], pdom is pr)
    col._add('canary/doubled_factor', 'canary', dict(status='ok' if st == 'refuted' else 'canary-not-refuted', backend='sympy+mpmath',
                                                      time=round(time.time() - t0, 3)))
    return col.pack()


# ------------------------------------------------------------------ Model validation
def validation_summaries(log):
    def backward(it, args, kw, node):
        a = args[-1]
        r = cx.NDArr(cx.Store(('conductivity-of', a.store.uid if isinstance(a, cx.NDArr) else None)))
        log.append(('backward', a, r))
        return r
    return {f'maps.{c}.backward': backward for c in MAPS + ['BaseMap']}


def accept_clause(r, name, log):
    """normal return => all(conductivity > 0) and all finite, for the array that is checked"""
    if 'property_' in name:
        bw = [x for x in log if x[0] == 'backward']
        if len(bw) != 1:
            return False
        st = bw[0][2].store
        # the mapped array must be computed from the value that is being stored
    else:
        st = r.state['value'].store
    P, ax = prelude.pred_props(st.uid, st.version)
    return z3.Implies(z3.And(*ax), z3.And(P['all_pos'], P['all_finite']))


def task_model_validation():
    col = ob.Collector(PROP, 'models.Model/validation')
    col.default_replay = lambda d: ob.guarded(__import__('contracts.c14_concrete', fromlist=['x']).check_rejection)
    for f in ('_check_positive_finite', '_init_parameter'):
        col.function(f'models.Model.{f}')
    names = ['property_x', 'property_y', 'property_z', 'mu_r', 'epsilon_r']
    # (1) _check_positive_finite itself
    res = []
    for name in names:
        for was_none in (False, True):
            def mk(ctx, name=name, was_none=was_none):
                log = []
                ctx.summaries.update(validation_summaries(log))
                val = cx.NDArr(cx.Store('new-values'))
                self = cx.Obj('Model', {'map': cx.Obj('MapResistivity', {}, mod='maps'),
                                        '_' + name: (None if was_none else cx.NDArr(cx.Store('old-' + name)))}, mod='models')
                self.fields['__strict__'] = True
                return [val, name], {}, dict(__self__=self, value=val, log=log, name=name, was_none=was_none)
            res += cx.run_function('models.Model._check_positive_finite', mk, summaries={}, opts={})
    clause(col, '_check_positive_finite/normal_return_implies_all_positive_and_all_finite_conductivity', res,
           lambda r: accept_clause(r, r.state['name'], r.state['log']) if r.outcome == 'return' else None, sample=True)
    clause(col, '_check_positive_finite/property_that_is_None_cannot_be_set', res,
           lambda r: (r.outcome == 'raise' and r.value.typ == 'ValueError') if r.state['was_none'] else None)
    clause(col, '_check_positive_finite/checked_array_is_the_conductivity_of_the_given_values', res,
           lambda r: (all(x[1] is r.state['value'] or (isinstance(x[1], cx.NDArr) and x[1].store is r.state['value'].store)
                          for x in r.state['log'] if x[0] == 'backward')) if 'property_' in r.state['name'] else None)
    clause(col, '_check_positive_finite/nothing_is_written', res, lambda r: len(r.mutations()) == 0)
    clause(col, '_check_positive_finite/raises_only_ValueError', res,
           lambda r: r.value.typ == 'ValueError' if r.outcome == 'raise' else None)
    # (2) every store path goes through the check first: the five setters and _init_parameter
    for name in names:
        def mk(ctx, name=name):
            log = []

            def check(it, args, kw, node):
                log.append(('check', args[1], args[2]))
                return None
            ctx.summaries['models.Model._check_positive_finite'] = check
            val = cx.NDArr(cx.Store('new-values'))
            old = cx.NDArr(cx.Store('stored-' + name))
            self = cx.Obj('Model', {'_' + name: old}, mod='models')
            return val, self, old, log
        # setter
        fnode, mod, cname = cx.Interp(cx.Ctx([]), 'models').find_setter(cx.Obj('Model', {}, mod='models'), name)

        def run(ctx, name=name, fnode=fnode):
            val, self, old, log = mk(ctx)
            it = cx.Interp(ctx, 'models')
            try:
                it.call_closure(cx.Closure(fnode, {}, it, self_obj=self), [val], {})
            except cx._Raise as r:
                return 'raise', r.exc, dict(log=log, old=old, val=val, self=self)
            return 'return', None, dict(log=log, old=old, val=val, self=self)
        rs = cx.explore(run)

        def setter_ok(r, name=name):
            log = r.state['log']
            muts = [e for e in r.mutations() if e['store'] is r.state['old'].store]
            chk = [x for x in log if x[0] == 'check']
            if r.outcome != 'return' or len(chk) != 1 or len(muts) != 1:
                return False
            ok = chk[0][2] == name and (chk[0][1] is r.state['val'])
            # order: check before the store
            k_chk = [k for k, e in enumerate(r.events) if e['kind'] == 'call' and e['name'] == 'models.Model._check_positive_finite'][0]
            k_mut = [k for k, e in enumerate(r.events) if e['kind'] == 'mutate' and e['store'] is r.state['old'].store][0]
            return ok and k_chk < k_mut
        clause(col, f'setter_{name}/validates_the_new_values_under_its_own_name_before_storing_in_place', rs, setter_ok)
    res = []
    for name in names:
        def mk(ctx, name=name):
            log = []

            def check(it, args, kw, node):
                log.append(('check', args[1], args[2]))
                return None
            ctx.summaries['models.Model._check_positive_finite'] = check
            val = cx.NDArr(cx.Store('given-values'))
            self = cx.Obj('Model', dict(size=z3.Int('size'), shape=(z3.Int('a'), z3.Int('b'), z3.Int('c'))), mod='models')
            return [val, name], {}, dict(__self__=self, log=log, val=val, name=name)
        res += cx.run_function('models.Model._init_parameter', mk, summaries={}, opts={})
    clause(col, '_init_parameter/returned_array_was_validated_under_the_given_name', res,
           lambda r: (len(r.state['log']) == 1 and r.state['log'][0][2] == r.state['name'] and r.state['log'][0][1] is r.value)
           if r.outcome == 'return' and r.value is not None else None)
    # (3) constructor routes each argument to _init_parameter under its own name
    def mk(ctx):
        log = []

        def ip(it, args, kw, node):
            log.append((args[1], args[2]))
            return ('stored', args[2])
        ctx.summaries['models.Model._init_parameter'] = ip
        grid = cx.Obj('TensorMesh', dict(shape_cells=(1, 2, 3), n_cells=6))
        vals = {n: cx.Opaque('arg-' + n) for n in names}
        self = cx.Obj('Model', {}, mod='models')
        return [grid, vals['property_x'], vals['property_y'], vals['property_z'], vals['mu_r'], vals['epsilon_r']], dict(mapping='Conductivity'), \
            dict(__self__=self, log=log, vals=vals)
    rs = cx.run_function('models.Model.__init__', mk, summaries={'maps.MapConductivity': lambda it, a, k, n: cx.Obj('MapConductivity', {}, mod='maps')})
    clause(col, 'constructor/each_parameter_is_initialised_through__init_parameter_under_its_own_name', rs,
           lambda r: r.outcome == 'return' and [(a is r.state['vals'][n], n) for a, n in r.state['log']] == [(True, n) for n in names]
           and all(r.state['__self__'].fields.get('_' + n) == ('stored', n) for n in names))
    return col.pack()


def task_concrete():
    from . import c14_concrete
    col = ob.Collector(PROP, 'concrete')
    r = ob.guarded(c14_concrete.check_maps, MAPS)
    col.concrete('maps_roundtrip_and_chain_factor_numerically_over_twelve_decades', r['reproduced'] is False, r,
                 bounded='six mappings x 25 conductivities 1e-6..1e6; chain factor vs central differences', cases=r.get('cases', 0))
    r = ob.guarded(c14_concrete.check_rejection)
    col.concrete('model_rejects_nonpositive_and_nonfinite_values', r['reproduced'] is False, r,
                 bounded='six mappings x 5 parameters x {0,-1,inf,-inf,nan} x construction/assignment, scalar and single-cell', cases=r.get('cases', 0))
    r = ob.guarded(c14_concrete.check_invariance)
    col.concrete('VolumeModel_coefficients_equal_for_all_six_mappings', r['reproduced'] is False, r,
                 bounded='4 anisotropy cases x mu_r/eps_r, random conductivities over 12 decades', cases=r.get('cases', 0))
    return col.pack()


def tasks(tier):
    t = [('contracts.c14', 'task_map', dict(cls=c)) for c in MAPS]
    t += [('contracts.c14', 'task_model_validation', {}), ('contracts.c14', 'task_concrete', {})]
    from . import c02_model
    t += [('contracts.c02_model', 'task_volume_model', {})]      # dependency closure: coefficients depend on the property only through backward
    return t


LEVEL = ('Map methods: identities decided for all positive conductivities / all real mapped values by computer algebra on the terms read from the '
         'current source (sympy, with a 50-digit numeric cross-check); Model validation: all paths of the validator, the five setters, '
         '_init_parameter and the constructor explored by the control executor with IEEE-aware array predicates.')
ASSUMPTIONS = ['exp/log/10**x over the reals (rounding of the transcendental functions not modelled)',
               'sympy simplification is trusted as a back end for the exp/log identities (cross-checked numerically)',
               'IEEE-754 facts about element-wise comparisons with NaN/inf used as axioms (pyvc.prelude.pred_props)',
               'np.asarray/np.asfortranarray of an ndarray denote the same values']
