"""Concrete evaluation of the C03 contracts on the real kernels (compiled and .py_func):
fixed point, last block exact, PEC frame, affinity; core.solve against a dense solve."""
import itertools

import numpy as np

from . import spec
from .c02_concrete import make_problem, spec_apply


def _run(impl, e, s, eta, zeta, h, nu):
    ee = {c: e[c].copy() for c in 'xyz'}
    impl(ee['x'], ee['y'], ee['z'], s['x'], s['y'], s['z'], eta['x'], eta['y'], eta['z'], zeta, h[0], h[1], h[2], nu)
    return ee


def _last_block_edges(kernel, shape, nu):
    """edges of the block relaxed last (from the documented ordering: odd nu ends with a reversed sweep
    started by iback=1, i.e. the last block is the first in lexicographic order; even nu the last one)"""
    nx, ny, nz = shape
    first = nu % 2 == 1
    if kernel == 'gauss_seidel':
        ix, iy, iz = (1, 1, 1) if first else (nx - 1, ny - 1, nz - 1)
        return [('x', (ix - 1, iy, iz)), ('x', (ix, iy, iz)), ('y', (ix, iy - 1, iz)), ('y', (ix, iy, iz)),
                ('z', (ix, iy, iz - 1)), ('z', (ix, iy, iz))]
    out = []
    if kernel == 'gauss_seidel_x':
        iy, iz = (1, 1) if first else (ny - 1, nz - 1)
        for i in range(nx):
            out.append(('x', (i, iy, iz)))
        for i in range(1, nx):
            out += [('y', (i, iy - 1, iz)), ('y', (i, iy, iz)), ('z', (i, iy, iz - 1)), ('z', (i, iy, iz))]
    elif kernel == 'gauss_seidel_y':
        ix, iz = (1, 1) if first else (nx - 1, nz - 1)
        for j in range(ny):
            out.append(('y', (ix, j, iz)))
        for j in range(1, ny):
            out += [('x', (ix - 1, j, iz)), ('x', (ix, j, iz)), ('z', (ix, j, iz - 1)), ('z', (ix, j, iz))]
    else:
        ix, iy = (1, 1) if first else (nx - 1, ny - 1)
        for k in range(nz):
            out.append(('z', (ix, iy, k)))
        for k in range(1, nz):
            out += [('x', (ix - 1, iy, k)), ('x', (ix, iy, k)), ('y', (ix, iy - 1, k)), ('y', (ix, iy, k))]
    return out


def check_kernel(kernel, shapes, seeds, tol=1e-8):
    import emg3d.core as core
    f = getattr(core, kernel)
    cases = 0

    def fail(**kw):
        kw.update(reproduced=True, cases=cases, kernel=kernel,
                  how='contracts.c03_concrete.check_kernel on the real emg3d.core kernel (random stretched grid, N(0,1) data, given seed)')
        return kw
    for shape in shapes:
        for seed in seeds:
            for cplx in (False, True):
                h, e, r, eta, zeta = make_problem(shape, seed, cplx, pec=True)
                # make the system diagonally "nice": eta with negative real part (as -s mu0 V sigma has for s=i omega)
                for c in 'xyz':
                    eta[c] = -(np.abs(eta[c].real) + 0.5) + (1j * eta[c].imag if cplx else 0)
                A_e = spec_apply(shape, h, e, eta, zeta)
                s_exact = {c: (A_e[c] if cplx else A_e[c].real) for c in 'xyz'}
                rng = np.random.default_rng(seed + 99)
                s_rand = {c: rng.standard_normal(spec.edge_shape(c, shape)) + (1j * rng.standard_normal(spec.edge_shape(c, shape)) if cplx else 0) for c in 'xyz'}
                for impl_name, impl in (('py_func', f.py_func), ('jit', f)):
                    for nu in (1, 2, 3, 4):
                        cases += 1
                        # (1) exact solutions are fixed points
                        out = _run(impl, e, s_exact, eta, zeta, h, nu)
                        for c in 'xyz':
                            if np.abs(out[c] - e[c]).max() > tol * max(1.0, np.abs(e[c]).max()):
                                return fail(clause='fixed point', impl=impl_name, shape=shape, seed=seed, complex=cplx, nu=nu,
                                            component=c, max_change=float(np.abs(out[c] - e[c]).max()))
                        # (2) last block exact, (3) PEC frame
                        out = _run(impl, e, s_rand, eta, zeta, h, nu)
                        A_o = spec_apply(shape, h, out, eta, zeta)
                        for c, I in _last_block_edges(kernel, shape, nu):
                            res = s_rand[c][I] - A_o[c][I]
                            if abs(res) > tol * 10 * max(1.0, max(np.abs(s_rand[cc]).max() for cc in 'xyz')):
                                return fail(clause='block relaxed last is solved exactly', impl=impl_name, shape=shape, seed=seed,
                                            complex=cplx, nu=nu, edge=(c, I), residual=str(res))
                        for c in 'xyz':
                            interior = np.zeros(spec.edge_shape(c, shape), dtype=bool)
                            for I in itertools.product(*[range(k) for k in spec.edge_shape(c, shape)]):
                                interior[I] = all(bool(b) for b in spec.edge_interior(c, I, shape))
                            if np.abs(out[c][~interior] - e[c][~interior]).max() > 0:
                                return fail(clause='tangential boundary values never written', impl=impl_name, shape=shape,
                                            seed=seed, complex=cplx, nu=nu, component=c)
                    # (2') sparse data: zero source, field supported on the block relaxed last only (exact zeros in the right-hand sides)
                    for nu in (1, 2):
                        cases += 1
                        zero_s = {c: np.zeros_like(s_rand[c]) for c in 'xyz'}
                        ee = {c: np.zeros_like(e[c]) for c in 'xyz'}
                        for c, I in _last_block_edges(kernel, shape, nu):
                            ee[c][I] = 1.0 + 0.5 * (I[0] + 2 * I[1] + 3 * I[2])
                        out = _run(impl, ee, zero_s, eta, zeta, h, nu)
                        A_o = spec_apply(shape, h, out, eta, zeta)
                        for c, I in _last_block_edges(kernel, shape, nu):
                            if abs(A_o[c][I]) > tol * 100:
                                return fail(clause='block relaxed last is solved exactly (zero source, field supported on that block only)', impl=impl_name,
                                            shape=shape, seed=seed, complex=cplx, nu=nu, edge=(c, I), residual=str(-A_o[c][I]))
                        # affine with a unit-field increment: S(f + u, s) - S(f, s) == S(u, 0)
                        u = {c: np.zeros_like(e[c]) for c in 'xyz'}
                        c0, I0 = _last_block_edges(kernel, shape, nu)[0]
                        u[c0][I0] = 1.0
                        fu = {c: e[c] + u[c] for c in 'xyz'}
                        a = _run(impl, fu, s_rand, eta, zeta, h, nu)
                        b = _run(impl, e, s_rand, eta, zeta, h, nu)
                        d0 = _run(impl, u, zero_s, eta, zeta, h, nu)
                        for c in 'xyz':
                            dev = np.abs((a[c] - b[c]) - d0[c]).max()
                            if dev > tol * 100 * max(1.0, np.abs(a[c]).max()):
                                return fail(clause='affine in (field, source): unit-field increment with zero source', impl=impl_name, shape=shape, seed=seed,
                                            complex=cplx, nu=nu, component=c, deviation=float(dev))
                    # (4) affine in (field, source)
                    t = 0.3
                    h2, e2, r2, _, _ = make_problem(shape, seed + 7, cplx, pec=True)
                    s2 = {c: r2[c] for c in 'xyz'}
                    mixe = {c: t * e[c] + (1 - t) * e2[c] for c in 'xyz'}
                    mixs = {c: t * s_rand[c] + (1 - t) * s2[c] for c in 'xyz'}
                    o1 = _run(impl, e, s_rand, eta, zeta, h, 2)
                    o2 = _run(impl, e2, s2, eta, zeta, h, 2)
                    om = _run(impl, mixe, mixs, eta, zeta, h, 2)
                    cases += 1
                    for c in 'xyz':
                        d = np.abs(om[c] - (t * o1[c] + (1 - t) * o2[c])).max()
                        if d > tol * 100 * max(1.0, np.abs(om[c]).max()):
                            return fail(clause='affine in (field, source)', impl=impl_name, shape=shape, seed=seed,
                                        complex=cplx, component=c, deviation=float(d))
    return dict(reproduced=False, cases=cases)


def check_solve(ns, seeds, tol=1e-9):
    import emg3d.core as core
    cases = 0
    for n in ns:
        for seed in seeds:
            for cplx in (False, True):
                rng = np.random.default_rng(seed)
                A = np.zeros((n, n), dtype=complex if cplx else float)
                for i in range(n):
                    for j in range(max(0, i - 5), i + 1):
                        v = rng.standard_normal() + (1j * rng.standard_normal() if cplx else 0)
                        A[i, j] = A[j, i] = v
                    A[i, i] += 12 + (3j if cplx else 0)
                b = rng.standard_normal(n) + (1j * rng.standard_normal(n) if cplx else 0)
                amat = np.zeros(6 * n, dtype=A.dtype)
                for j in range(n):
                    for i in range(j, min(n, j + 6)):
                        amat[i + 5 * j] = A[i, j]
                want = np.linalg.solve(A, b)
                for impl_name, impl in (('py_func', core.solve.py_func), ('jit', core.solve)):
                    a2, b2 = amat.copy(), b.copy()
                    impl(a2, b2)
                    cases += 1
                    if np.abs(b2 - want).max() > tol * max(1.0, np.abs(want).max()):
                        return dict(reproduced=True, cases=cases, n=n, seed=seed, complex=cplx, impl=impl_name,
                                    max_err=float(np.abs(b2 - want).max()),
                                    how='contracts.c03_concrete.check_solve: real emg3d.core.solve vs numpy.linalg.solve')
    return dict(reproduced=False, cases=cases)


def check_dispatch(shapes=((4, 4, 4), (2, 4, 6), (4, 2, 2)), seed=0):
    """solver.smoothing on real objects == the kernels called directly with the bindings stated in c03_dispatch"""
    import types
    import emg3d
    from emg3d import core, solver
    cases = 0
    for shape in shapes:
        h, e0, s, eta, zeta = make_problem(shape, seed)
        rng = np.random.default_rng(seed + 17)
        # second pass: a probe field with non-zero tangential boundary values (inhomogeneous boundary data): smoothing() itself must still
        # be nothing but the kernel sequence, and must not write a boundary value
        e1 = {c: e0[c] + rng.standard_normal(e0[c].shape) * (1 if not np.iscomplexobj(e0[c]) else (1 + 0.5j)) for c in 'xyz'}
        for lr, nu, e in [(lr, nu, e) for e in (e0, e1) for lr in range(8) for nu in (1, 2)]:
            if True:
                cases += 1
                grid = types.SimpleNamespace(h=h, shape_cells=shape)
                model = types.SimpleNamespace(eta_x=eta['x'], eta_y=eta['y'], eta_z=eta['z'], zeta=zeta, grid=grid)
                sf = types.SimpleNamespace(fx=s['x'], fy=s['y'], fz=s['z'])
                got = {c: e[c].copy() for c in 'xyz'}
                ef = types.SimpleNamespace(fx=got['x'], fy=got['y'], fz=got['z'])
                solver.smoothing(model, sf, ef, nu, lr)
                dirs = {0: '', 1: 'x', 2: 'y', 3: 'z', 4: 'yz', 5: 'xz', 6: 'xy', 7: 'xyz'}[lr]
                dirs = ''.join(d for d in dirs if shape['xyz'.index(d)] != 2)
                want = {c: e[c].copy() for c in 'xyz'}
                seq = [core.gauss_seidel] if not dirs else [getattr(core, f'gauss_seidel_{d}') for d in dirs]
                for k in seq:
                    k(want['x'], want['y'], want['z'], s['x'], s['y'], s['z'], eta['x'], eta['y'], eta['z'], zeta, h[0], h[1], h[2], nu)
                for c in 'xyz':
                    if not np.array_equal(got[c], want[c]):
                        return dict(reproduced=True, cases=cases, shape=shape, lr_dir=lr, nu=nu, component=c, boundary_data=e is e1,
                                    clause='smoothing() differs from the stated kernel sequence / argument binding',
                                    how='contracts.c03_concrete.check_dispatch')
                    ax = 'xyz'.index(c)
                    for a2 in range(3):
                        if a2 == ax:
                            continue
                        for side in (0, -1):
                            sl = [slice(None)] * 3
                            sl[a2] = side
                            if not np.array_equal(got[c][tuple(sl)], e[c][tuple(sl)]):
                                return dict(reproduced=True, cases=cases, shape=shape, lr_dir=lr, nu=nu, component=c, boundary_data=e is e1,
                                            clause='smoothing() wrote a tangential boundary value', axis=a2, side=side,
                                            how='contracts.c03_concrete.check_dispatch')
    return dict(reproduced=False, cases=cases)
