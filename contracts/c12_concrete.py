"""Concrete cross-check / replay for C12: operation sequences on a real Simulation vs a fresh one."""
import numpy as np

TOLF, TOLG = 1e-7, 1e-2


def setup(seed):
    import emg3d
    rng = np.random.default_rng(seed)
    hx = np.ones(8) * 50.0
    grid = emg3d.TensorMesh([hx, hx, hx], origin=(-200, -200, -400))
    models = [emg3d.Model(grid, rng.uniform(0.5, 3.0, grid.shape_cells)), emg3d.Model(grid, rng.uniform(0.5, 3.0, grid.shape_cells))]
    src = {'TxED-1': emg3d.TxElectricDipole((-55.0, 10.0, -160.0, 20, 5))}
    # (names deliberately NOT in alphabetical order: results are tied to names, not to positions)
    rec = {'RxEP-2': emg3d.RxElectricPoint((45.0, 15.0, -150.0, 0, 0)), 'RxEP-1': emg3d.RxElectricPoint((70.0, -35.0, -170.0, 30, 10))}
    survey = emg3d.Survey(sources=src, receivers=rec, frequencies=[1.0, 2.5], noise_floor=1e-14, relative_error=0.05)
    true = emg3d.Model(grid, rng.uniform(0.5, 3.0, grid.shape_cells))
    s0 = new_sim(survey, true)
    s0.compute(observed=True, add_noise=False)
    survey = s0.survey.copy()
    for k in ('synthetic', 'residual', 'weights'):
        if k in survey.data:
            del survey._data[k]
    return survey, models


def new_sim(survey, model):
    import emg3d
    return emg3d.Simulation(survey.copy(), model, gridding='same', max_workers=1, receiver_interpolation='linear',
                            solver_opts=dict(tol=TOLF, tol_gradient=TOLG, maxit=30, verb=0), tqdm_opts=dict(disable=True), verb=-1)


def reference(survey, model):
    s = new_sim(survey, model)
    mf = s.misfit
    g = s.gradient.copy()
    return np.asarray(s.data.synthetic.data).copy(), float(mf), g


OPS = ['compute', 'misfit', 'gradient', 'jtvec', 'get_efield', 'get_hfield', 'clean_computed', 'clean_keepresults', 'clean_all', 'copy',
       'dict', 'model_update', 'file_h5', 'file_npz', 'file_json']


def apply(sim, op, state, rng):
    import emg3d
    if op == 'compute':
        sim.compute()
    elif op == 'misfit':
        sim.misfit
    elif op == 'gradient':
        sim.gradient
    elif op == 'jtvec':
        _ = sim.misfit            # documented use: after the misfit (weights / residual exist)
        v = rng.standard_normal(sim.survey.shape) + 1j * rng.standard_normal(sim.survey.shape)
        sim.jtvec(v * 1e-6)
    elif op == 'get_efield':
        sim.get_efield('TxED-1', 'f-1')
    elif op == 'get_hfield':
        sim.get_hfield('TxED-1', 'f-1')
    elif op.startswith('clean_'):
        sim.clean(op[6:])
    elif op == 'copy_results':
        sim = sim.copy(what='results')
    elif op == 'copy':
        sim = sim.copy(what=['computed', 'all', 'results', 'plain'][int(rng.integers(4))])
    elif op == 'dict':
        sim = emg3d.Simulation.from_dict(sim.to_dict(what='computed', copy=True))
    elif op in ('file_h5', 'file_npz', 'file_json'):
        import os
        import tempfile
        td = tempfile.mkdtemp(prefix='c12_')
        try:
            fn = os.path.join(td, 'sim.' + op[5:])
            sim.to_file(fn, what='computed', verb=0)
            sim = emg3d.Simulation.from_file(fn, verb=0)
        finally:
            import shutil
            shutil.rmtree(td, ignore_errors=True)
    elif op == 'model_update':
        state['m'] = 1 - state['m']
        sim.model = state['models'][state['m']]
        sim.clean('computed')
    return sim


def check(tier='quick', seed=0):
    survey, models = setup(seed)
    refs = [reference(survey, m) for m in models]
    rng = np.random.default_rng(seed + 17)
    nseq, maxlen = (23, 5) if tier == 'quick' else (87, 8)
    fixed = [['misfit', 'file_h5'], ['gradient', 'file_npz'], ['misfit', 'file_json', 'gradient'], ['get_efield', 'dict'], ['get_efield', 'file_npz', 'gradient'],
             ['misfit', 'dict', 'model_update'], ['gradient', 'file_h5', 'model_update'], ['gradient', 'clean_keepresults', 'model_update'], ['gradient', 'copy_results', 'model_update'], ['compute', 'file_h5', 'gradient'], ['misfit', 'file_h5', 'clean_computed', 'misfit'], ['get_efield', 'misfit', 'gradient'], ['misfit', 'jtvec', 'gradient'], ['gradient', 'clean_computed', 'compute'], ['misfit', 'clean_keepresults', 'gradient'],
             ['gradient', 'model_update', 'compute'], ['gradient', 'copy', 'model_update'], ['compute', 'misfit', 'gradient', 'clean_computed', 'get_efield']]
    cases = 0
    for k in range(nseq):
        seq = fixed[k] if k < len(fixed) else [OPS[int(i)] for i in rng.integers(len(OPS), size=int(rng.integers(2, maxlen + 1)))]
        state = dict(m=0, models=models)
        sim = new_sim(survey, models[0])
        cases += 1
        try:
            for op in seq:
                sim = apply(sim, op, state, rng)
            mf = float(sim.misfit)
            g = np.asarray(sim.gradient)
            syn = np.asarray(sim.data.synthetic.data)
        except Exception as e:
            return dict(reproduced=True, cases=cases, clause='operation sequence raised', sequence=seq, exception=f'{type(e).__name__}: {e}',
                        how='contracts.c12_concrete.check: sequence applied to a real emg3d.Simulation (8x8x8, tol 1e-7 / tol_gradient 1e-2), then misfit / gradient queried')
        rsyn, rmf, rg = refs[state['m']]
        dsyn = np.abs(syn - rsyn).max() / np.abs(rsyn).max()
        dmf = abs(mf - rmf) / abs(rmf)
        dg = np.abs(g - rg).max() / np.abs(rg).max()
        if dsyn > 1e-4 or dmf > 1e-3 or dg > 0.2:
            return dict(reproduced=True, cases=cases, clause='results after the sequence differ from a fresh simulation', sequence=seq,
                        rel_diff_synthetic=float(dsyn), rel_diff_misfit=float(dmf), rel_diff_gradient=float(dg),
                        how='contracts.c12_concrete.check: sequence applied to a real emg3d.Simulation (8x8x8, tol 1e-7 / tol_gradient 1e-2), compared with a fresh one')
    return dict(reproduced=False, cases=cases)
