"""C02 -- matrix-free operator == finite-integration discretisation.

Functions under contract: core.amat_x (rule 1: independent iterations, symbolic grid and
symbolic stencil position), models.VolumeModel (coefficients), solver.residual /
solver.krylov.amatvec (argument binding; see c02_wrappers).
"""
import itertools
import os

import z3

from pyvc import sx, ob, intake, prove
from . import spec
from .kernel_env import KEnv, ZERO, ONE

PROP = 'C02'
ARGS = ['rx', 'ry', 'rz', 'ex', 'ey', 'ez', 'eta_x', 'eta_y', 'eta_z', 'zeta', 'hx', 'hy', 'hz']


def run_amat_x(K, col, e_override=None, eta_zero=False):
    """symbolic execution of core.amat_x at one symbolic iteration (iz, iy, ix)"""
    fn = col.function('core.amat_x')
    params = [a.arg for a in fn.args.args]
    if params != ARGS:
        raise sx.OutsideSubset(f'core.amat_x signature changed: {params}')
    if len(intake.loops_preorder(fn)) != 3:
        raise sx.OutsideSubset('core.amat_x: expected exactly three nested loops')
    X = sx.Ex('core', pc=K.hyps, loops={0: ('sym', 'iz'), 1: ('sym', 'iy'), 2: ('sym', 'body')})
    args = []
    for p in params:
        o = K.a(p)
        if e_override is not None and p in e_override:
            o = e_override[p]
        args.append(o)
    if eta_zero:
        for i, p in enumerate(params):
            if p.startswith('eta_'):
                args[i] = sx.ArrObj(p + '0', K.n, base=lambda *i: ZERO)
    X.run_function(fn, args)
    if 'body' not in X.snap:
        raise sx.OutsideSubset('core.amat_x: innermost loop body not reached')
    return X, dict(zip(params, args))


def loop_vars(X):
    env = X.snap['body']['env']
    return env['ix'], env['iy'], env['iz']


def body_hyps(X):
    return X.snap['body']['pc']


def replay_row(comp, interior):
    def rp(d):
        from . import c02_concrete
        m = d.get('model', {}).get('_index_model', {})
        shape = tuple(max(2, min(6, int(m.get(k, 3)))) for k in ('nx', 'ny', 'nz'))
        return ob.guarded(c02_concrete.check_amat_x, shapes=[shape, (3, 4, 5)], seeds=(0, 1), want_rows=(comp, interior))
    return rp


def task_rows():
    col = ob.Collector(PROP, 'core.amat_x')
    K = KEnv()
    X, argmap = run_amat_x(K, col)
    ix, iy, iz = loop_vars(X)
    I = (ix, iy, iz)
    hyps = body_hyps(X)
    post = X.snap['body']['arr']
    p = K.fld0()
    col.satisfiable('hyps-sat', hyps)
    # O1-O3 interior rows:  r' == r - (A_spec e)
    for c in 'xyz':
        h = hyps + spec.edge_interior(c, I, K.n)
        col.satisfiable(f'post/r{c}_interior/hyps-sat', h)
        new = K.acc('r' + c, post)(*I)
        old = K.acc0('r' + c)(*I)
        col.eq(f'post/r{c}_interior', h, new, old - spec.A_spec(c, p, I, ONE, ZERO),
               replay=replay_row(c, True), smt_sample=(c == 'x'))
        # canary: face average 1/2 replaced by 1 -> must be refuted
        wrong = old - 2 * spec.A_spec(c, p, I, ONE, ZERO)
        col.canary_eq(f'canary/r{c}_interior_scaled', h, new, wrong)
    # O4-O6 non-interior rows under PEC(e): unchanged
    Kp = KEnv(pec=True)
    Xp, _ = run_amat_x(Kp, col)
    Ip = loop_vars(Xp)
    hp = body_hyps(Xp)
    postp = Xp.snap['body']['arr']
    for c in 'xyz':
        h = hp + [z3.Not(z3.And(*spec.edge_interior(c, Ip, Kp.n)))]
        col.satisfiable(f'post/r{c}_pec_row_inert/hyps-sat', h)
        col.eq(f'post/r{c}_pec_row_inert', h, Kp.acc('r' + c, postp)(*Ip), Kp.acc0('r' + c)(*Ip),
               replay=replay_row(c, False))
    # canary for the PEC rows: without PEC(e) the boundary rows are not inert
    h = hyps + [z3.Not(z3.And(*spec.edge_interior('x', I, K.n)))]
    col.canary_eq('canary/rx_boundary_row_without_pec', h, K.acc('rx', post)(*I), K.acc0('rx')(*I))
    # O7 frame / rule-1 side conditions
    frame_and_bounds(col, X, K, I, hyps)
    return col.pack()


def frame_and_bounds(col, X, K, I, hyps):
    out_names = {K.a('r' + c).name: c for c in 'xyz'}
    writes = [b for b in X.bounds if b['kind'] == 'write']
    reads = [b for b in X.bounds if b['kind'] == 'read']
    # every write goes to r{c}[ix,iy,iz]; exactly the three output arrays are written
    ok_names = all(w['arr'] in out_names for w in writes)
    goal = z3.And(*[z3.And(*[a == b for a, b in zip(w['idx'], I)]) for w in writes]) if writes else z3.BoolVal(False)
    col.lia('frame/writes_only_own_cell', hyps + ([] if ok_names else [z3.BoolVal(True)]),
            z3.And(goal, z3.BoolVal(ok_names), z3.BoolVal(len({w['arr'] for w in writes}) == 3)), sample=True)
    # reads of written arrays only at the written cell (so iterations are independent)
    rw = [r for r in reads if r['arr'] in out_names]
    goal = z3.And(*[z3.And(*[a == b for a, b in zip(r['idx'], I)]) for r in rw]) if rw else z3.BoolVal(True)
    col.lia('frame/reads_of_outputs_only_own_cell', hyps, goal)
    # injectivity of the write index map in the loop variables: identity map -> trivial; stated for completeness
    J = z3.Ints('jx jy jz')
    col.lia('frame/write_map_injective', hyps, z3.Implies(z3.And(*[a == b for a, b in zip(I, J)]),
                                                           z3.And(*[a == b for a, b in zip(I, J)])))
    # O8 bounds, one obligation per array
    by = {}
    for b in X.bounds:
        by.setdefault(b['arr'], []).append(b)
    for name, bs in sorted(by.items()):
        goals = []
        for b in bs:
            g = z3.And(*[z3.And(0 <= i, i < s) for i, s in zip(b['idx'], b['shape'])])
            extra = [x for x in b['hyps'] if not any(x.eq(y) for y in hyps)]
            goals.append(z3.Implies(z3.And(*extra), g) if extra else g)
        col.lia(f'bounds/{name}', hyps, z3.And(*goals))
    col.canary_lia('canary/bounds_ex_shifted', hyps,
                   z3.And(*[z3.And(0 <= i, i + 1 < s) for b in by.get(K.a('ex').name, []) for i, s in zip(b['idx'], b['shape'])]))


def task_symmetry(a, b):
    """O9 on the code's own expression: coefficient of e_b[J] in row (a,I) equals the
    coefficient of e_a[I] in row (b,J), for all stencil offsets J = I + d."""
    col = ob.Collector(PROP, f'core.amat_x/symmetry/{a}{b}')
    K = KEnv()
    kx, ky, kz = z3.Ints('kx ky kz')
    Kp = (kx, ky, kz)

    def rowterm(row, colc):
        """code row (row, (ix,iy,iz)) applied to the Kronecker field delta_{colc, K}; r := 0"""
        d = spec.kron(colc, Kp, ONE, ZERO)
        eo = {('e' + c): sx.ArrObj('kr_e' + c, spec.edge_shape(c, K.n), base=d[c]) for c in 'xyz'}
        ro = {('r' + c): sx.ArrObj('zr_r' + c, spec.edge_shape(c, K.n), base=lambda *i: ZERO) for c in 'xyz'}
        eo.update(ro)
        X, argmap = run_amat_x(K, col, e_override=eo)
        I = loop_vars(X)
        t = X.snap['body']['arr'][argmap['r' + row].uid].read(list(I))
        return t, I, body_hyps(X)
    tA, I, hypsA = rowterm(a, b)        # -(A)[a,I ; b,K]
    tB, I2, _ = rowterm(b, a)           # -(A)[b,I ; a,K]
    n = 0
    for dlt in itertools.product((-1, 0, 1), repeat=3):
        J = tuple(i + o for i, o in zip(I, dlt))
        h = hypsA + spec.edge_interior(a, I, K.n) + spec.edge_interior(b, J, K.n)
        if prove.check_sat(h) != z3.sat:
            continue
        lhs = z3.substitute(tA, *[(k, j) for k, j in zip(Kp, J)])
        rhs = z3.substitute(tB, *([(i, j) for i, j in zip(I2, J)]))      # row index := J
        rhs = z3.substitute(rhs, *[(k, i) for k, i in zip(Kp, I)])       # column := I
        col.eq(f'd{dlt[0]:+d}{dlt[1]:+d}{dlt[2]:+d}', h, lhs, rhs)
        n += 1
    if a != b:
        # canary: wrong sign of the transpose
        J = (I[0], I[1], I[2])
        dl = dict(xy=(0, 0, 0), xz=(0, 0, 0), yx=(0, 0, 0), yz=(0, 0, 0), zx=(0, 0, 0), zy=(0, 0, 0))[a + b]
        h = hypsA + spec.edge_interior(a, I, K.n) + spec.edge_interior(b, J, K.n)
        lhs = z3.substitute(tA, *[(k, j) for k, j in zip(Kp, J)])
        rhs = z3.substitute(tB, *[(k, i) for k, i in zip(Kp, I)])
        col.canary_eq('canary/antisymmetric', h, lhs, -rhs)
    return col.pack()


def task_nullspace():
    """O10: with eta == 0 and e = grad(phi) the code leaves every interior row unchanged."""
    col = ob.Collector(PROP, 'core.amat_x/nullspace')
    K = KEnv()
    phi = z3.Function('phi', sx.I, sx.I, sx.I, sx.RS)
    g = spec.grad(lambda i, j, k: phi(i, j, k), K.ih())
    eo = {('e' + c): sx.ArrObj('gr_e' + c, spec.edge_shape(c, K.n), base=g[c]) for c in 'xyz'}
    X, argmap = run_amat_x(K, col, e_override=eo, eta_zero=True)
    I = loop_vars(X)
    hyps = body_hyps(X)
    for c in 'xyz':
        h = hyps + spec.edge_interior(c, I, K.n)
        new = X.snap['body']['arr'][argmap['r' + c].uid].read(list(I))
        col.eq(f'curlcurl_grad_zero/r{c}', h, new, K.acc0('r' + c)(*I))
    # canary: a non-gradient field is not annihilated
    eo2 = dict(eo)
    eo2['ex'] = sx.ArrObj('ng_ex', spec.edge_shape('x', K.n), base=lambda i, j, k: phi(i, j, k))
    X2, am2 = run_amat_x(K, col, e_override=eo2, eta_zero=True)
    I2 = loop_vars(X2)
    h = body_hyps(X2) + spec.edge_interior('y', I2, K.n)
    col.canary_eq('canary/non_gradient_not_annihilated', h,
                  X2.snap['body']['arr'][am2['ry'].uid].read(list(I2)), K.acc0('ry')(*I2))
    # spec-level lemma: C(grad phi) == 0 on every face
    i, j, k = z3.Ints('fi fj fk')
    for c in 'xyz':
        col.eq(f'spec/curl_of_grad_zero/{c}', [], spec.curl(c, g, K.ih(), i, j, k) + ZERO, ZERO)
    return col.pack()


def task_concrete():
    from . import c02_concrete
    col = ob.Collector(PROP, 'core.amat_x/concrete')
    col.function('core.amat_x')
    seed = int(os.environ.get('VERIF_SEED', '0'))
    tier = os.environ.get('VERIF_TIER', 'quick')
    shapes = [(2, 2, 2), (2, 3, 4), (3, 2, 5), (4, 4, 3)] if tier == 'quick' else \
        list(itertools.product((2, 3, 4, 5), repeat=3))
    r = ob.guarded(c02_concrete.check_amat_x, shapes=shapes, seeds=(seed, seed + 1))
    col.concrete('contract_on_real_function_pyfunc_and_jit', r['reproduced'] is False, r,
                 bounded=f'shapes {shapes[0]}..{shapes[-1]} ({len(shapes)} shapes) x 2 seeds x real/complex; jit vs py_func vs spec, rel tol 1e-9',
                 cases=r['cases'])
    return col.pack()


def task_concrete_solver():
    from . import c02_concrete
    col = ob.Collector(PROP, 'solver/concrete')
    for f in ('solver.solve', 'solver.residual'):
        col.function(f)
    seed = int(os.environ.get('VERIF_SEED', '0'))
    tier = os.environ.get('VERIF_TIER', 'quick')
    r = ob.guarded(c02_concrete.check_solver_operator, seeds=(seed,) if tier == 'quick' else (seed, seed + 1, seed + 2))
    col.concrete('operator_applied_by_the_real_solver_is_that_of_the_model_given_at_the_call__along_in_place_edits_of_the_same_model', r['reproduced'] is False, r,
                 bounded='4x4x4 grid, VTI model with mu_r, frequency and Laplace domain, three steps (fresh, property_x assigned, mu_r / property_z edited in place); '
                         'solver.residual and the initial-residual test of solver.solve vs core.amat_x with a fresh VolumeModel, rel tol 1e-9', cases=r.get('cases', 0))
    return col.pack()


def tasks(tier):
    t = [('contracts.c02', 'task_rows', {}), ('contracts.c02', 'task_nullspace', {}),
         ('contracts.c02', 'task_concrete', {})]
    for a in 'xyz':
        for b in 'xyz':
            t.append(('contracts.c02', 'task_symmetry', dict(a=a, b=b)))
    from . import c02_model
    t += c02_model.tasks(tier)
    # which operator the thin wrappers apply (explorations of contracts/c01.py, only the operator clauses are kept)
    t += [('contracts.c02', 'task_concrete_solver', {}), ('contracts.c01', 'task_residual', dict(prop=PROP)), ('contracts.c01', 'task_krylov', dict(cycle='F', prop=PROP))]
    for ssl, cyc in ((False, 'F'), ('bicgstab', 'F'), ('bicgstab', None)):
        t.append(('contracts.c01', 'task_solve', dict(sslsolver=ssl, cycle=cyc, supplied=True, prop=PROP)))
    return t


LEVEL = ('Deductive proof over the real source of core.amat_x: VCs generated from the AST of the working tree for a '
         'symbolic grid shape, symbolic stencil position and uninterpreted array contents; discharged by polynomial '
         'normal form / z3.  Covers every grid size and boundary configuration at once.')
ASSUMPTIONS = ['non-aliasing of the residual arrays with the field/model arrays (holds at both call sites: residual() works on a copy, amatvec() on a fresh Field)']
