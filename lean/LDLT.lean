import Mathlib.Algebra.BigOperators.Intervals
import Mathlib.Algebra.BigOperators.Ring.Finset
import Mathlib.Algebra.Field.Basic
import Mathlib.Tactic.Ring
import Mathlib.Tactic.Linarith

open Finset BigOperators

namespace LDLT

variable {F : Type*} [Field F]

/-- symmetric banded extension of the stored lower band -/
def Asym (A : ℕ → ℕ → F) (i j : ℕ) : F :=
  if j ≤ i then (if i ≤ j + 5 then A i j else 0) else (if j ≤ i + 5 then A j i else 0)

/-- a function given by "S lo = 0, S (k+1) = S k + t k" is the finite sum -/
theorem partial_sum_eq (S t : ℕ → F) (lo hi : ℕ) (hle : lo ≤ hi) (h0 : S lo = 0)
    (hs : ∀ k, lo ≤ k → k < hi → S (k + 1) = S k + t k) :
    S hi = ∑ k ∈ Ico lo hi, t k := by
  obtain ⟨d, rfl⟩ := Nat.exists_eq_add_of_le hle
  clear hle
  induction d with
  | zero => simp [h0]
  | succ m ih =>
    have hm : lo ≤ lo + m := Nat.le_add_right lo m
    have ih' : S (lo + m) = ∑ k ∈ Ico lo (lo + m), t k := by
      apply ih
      intro k hk hkm
      exact hs k hk (by omega)
    have hstep : S (lo + m + 1) = S (lo + m) + t (lo + m) := hs (lo + m) hm (by omega)
    have e : lo + (m + 1) = lo + m + 1 := by omega
    rw [e, Finset.sum_Ico_succ_top hm, hstep, ih']

/-- unit lower-triangular band factor -/
def Lb (L : ℕ → ℕ → F) (i k : ℕ) : F :=
  if k < i ∧ i ≤ k + 5 then L i k else if i = k then 1 else 0

theorem Lb_diag (L : ℕ → ℕ → F) (i : ℕ) : Lb L i i = 1 := by
  have h1 : ¬ (i < i ∧ i ≤ i + 5) := by omega
  rw [Lb, if_neg h1, if_pos rfl]

theorem Lb_band (L : ℕ → ℕ → F) (i k : ℕ) (h : k < i ∧ i ≤ k + 5) : Lb L i k = L i k := by
  rw [Lb, if_pos h]

theorem Lb_zero (L : ℕ → ℕ → F) (i k : ℕ) (h1 : ¬ (k < i ∧ i ≤ k + 5)) (h2 : ¬ (i = k)) :
    Lb L i k = 0 := by
  rw [Lb, if_neg h1, if_neg h2]

/-- row sums of the band factor -/
theorem row_sum (L : ℕ → ℕ → F) (f : ℕ → F) (n i : ℕ) (hi : i < n) :
    ∑ k ∈ range n, Lb L i k * f k = f i + ∑ k ∈ Ico (i - 5) i, L i k * f k := by
  have hsub : Ico (i - 5) (i + 1) ⊆ range n := by
    intro k hk
    rw [mem_Ico] at hk
    rw [mem_range]
    omega
  have hzero : ∀ k ∈ range n, k ∉ Ico (i - 5) (i + 1) → Lb L i k * f k = 0 := by
    intro k _ hk'
    rw [mem_Ico] at hk'
    have h1 : ¬ (k < i ∧ i ≤ k + 5) := by omega
    have h2 : ¬ (i = k) := by omega
    rw [Lb_zero L i k h1 h2, zero_mul]
  rw [← Finset.sum_subset hsub hzero, Finset.sum_Ico_succ_top (Nat.sub_le i 5), Lb_diag, one_mul,
    add_comm]
  congr 1
  apply Finset.sum_congr rfl
  intro k hk
  rw [mem_Ico] at hk
  have : k < i ∧ i ≤ k + 5 := by omega
  rw [Lb_band L i k this]

/-- column sums of the band factor -/
theorem col_sum (L : ℕ → ℕ → F) (f : ℕ → F) (n j : ℕ) (hj : j < n) :
    ∑ k ∈ range n, Lb L k j * f k
      = f j + ∑ k ∈ Ico (j + 1) (min n (j + 6)), L k j * f k := by
  have hlt : j < min n (j + 6) := by
    rw [lt_min_iff]; omega
  have hsub : Ico j (min n (j + 6)) ⊆ range n := by
    intro k hk
    rw [mem_Ico, lt_min_iff] at hk
    rw [mem_range]
    omega
  have hzero : ∀ k ∈ range n, k ∉ Ico j (min n (j + 6)) → Lb L k j * f k = 0 := by
    intro k hk hk'
    rw [mem_Ico, lt_min_iff] at hk'
    rw [mem_range] at hk
    have h1 : ¬ (j < k ∧ k ≤ j + 5) := by omega
    have h2 : ¬ (k = j) := by omega
    rw [Lb_zero L k j h1 h2, zero_mul]
  rw [← Finset.sum_subset hsub hzero, Finset.sum_eq_sum_Ico_succ_bot hlt, Lb_diag, one_mul]
  congr 1
  apply Finset.sum_congr rfl
  intro k hk
  rw [mem_Ico, lt_min_iff] at hk
  have : j < k ∧ k ≤ j + 5 := by omega
  rw [Lb_band L k j this]

theorem Asym_symm (A : ℕ → ℕ → F) (i j : ℕ) : Asym A i j = Asym A j i := by
  unfold Asym
  by_cases h1 : j ≤ i
  · by_cases h2 : i ≤ j
    · have : i = j := le_antisymm h2 h1
      subst this
      rfl
    · rw [if_pos h1, if_neg h2]
  · have h2 : i ≤ j := by omega
    rw [if_neg h1, if_pos h2]

/-- A = Lb * diag D * Lb^T on the lower triangle -/
theorem factor_le
    (n : ℕ) (A : ℕ → ℕ → F) (D : ℕ → F) (L : ℕ → ℕ → F)
    (hD : ∀ j, j < n → D j = A j j - ∑ k ∈ Ico (j - 5) j, L j k * L j k * D k)
    (hL : ∀ i j, j < i → i < n → i ≤ j + 5 →
        L i j * D j = A i j - ∑ k ∈ Ico (i - 5) j, L i k * L j k * D k)
    (i j : ℕ) (hi : i < n) (hj : j < n) (hji : j ≤ i) :
    Asym A i j = ∑ k ∈ range n, Lb L i k * D k * Lb L j k := by
  have hre : ∑ k ∈ range n, Lb L i k * D k * Lb L j k
      = ∑ k ∈ range n, Lb L j k * (D k * Lb L i k) :=
    Finset.sum_congr rfl (fun k _ => by ring)
  rw [hre, row_sum L (fun k => D k * Lb L i k) n j hj]
  rcases Nat.eq_or_lt_of_le hji with heq | hlt
  · subst heq
    have hs : ∑ k ∈ Ico (j - 5) j, L j k * (D k * Lb L j k)
        = ∑ k ∈ Ico (j - 5) j, L j k * L j k * D k := by
      apply Finset.sum_congr rfl
      intro k hk
      rw [mem_Ico] at hk
      have : k < j ∧ j ≤ k + 5 := by omega
      rw [Lb_band L j k this]; ring
    have hA : Asym A j j = A j j := by
      unfold Asym
      rw [if_pos (le_refl j), if_pos (Nat.le_add_right j 5)]
    rw [hs, Lb_diag, hA, mul_one, hD j hj]
    ring
  · by_cases h5 : i ≤ j + 5
    · have hsub : Ico (i - 5) j ⊆ Ico (j - 5) j := by
        intro k hk
        rw [mem_Ico] at hk ⊢
        omega
      have hzero : ∀ k ∈ Ico (j - 5) j, k ∉ Ico (i - 5) j →
          L j k * (D k * Lb L i k) = 0 := by
        intro k hk hk'
        rw [mem_Ico] at hk hk'
        have h1 : ¬ (k < i ∧ i ≤ k + 5) := by omega
        have h2 : ¬ (i = k) := by omega
        rw [Lb_zero L i k h1 h2]; ring
      have hs : ∑ k ∈ Ico (j - 5) j, L j k * (D k * Lb L i k)
          = ∑ k ∈ Ico (i - 5) j, L i k * L j k * D k := by
        rw [← Finset.sum_subset hsub hzero]
        apply Finset.sum_congr rfl
        intro k hk
        rw [mem_Ico] at hk
        have : k < i ∧ i ≤ k + 5 := by omega
        rw [Lb_band L i k this]; ring
      have hA : Asym A i j = A i j := by
        unfold Asym
        rw [if_pos hji, if_pos h5]
      have hLb : Lb L i j = L i j := Lb_band L i j ⟨hlt, h5⟩
      have hLij := hL i j hlt hi h5
      rw [hs, hA, hLb, mul_comm (D j) (L i j), hLij]
      ring
    · have hA : Asym A i j = 0 := by
        unfold Asym
        rw [if_pos hji, if_neg h5]
      have h1 : ¬ (j < i ∧ i ≤ j + 5) := by omega
      have h2 : ¬ (i = j) := by omega
      have hs : ∑ k ∈ Ico (j - 5) j, L j k * (D k * Lb L i k) = 0 := by
        apply Finset.sum_eq_zero
        intro k hk
        rw [mem_Ico] at hk
        have h1 : ¬ (k < i ∧ i ≤ k + 5) := by omega
        have h2 : ¬ (i = k) := by omega
        rw [Lb_zero L i k h1 h2]; ring
      rw [hs, hA, Lb_zero L i j h1 h2]
      ring

theorem factor
    (n : ℕ) (A : ℕ → ℕ → F) (D : ℕ → F) (L : ℕ → ℕ → F)
    (hD : ∀ j, j < n → D j = A j j - ∑ k ∈ Ico (j - 5) j, L j k * L j k * D k)
    (hL : ∀ i j, j < i → i < n → i ≤ j + 5 →
        L i j * D j = A i j - ∑ k ∈ Ico (i - 5) j, L i k * L j k * D k)
    (i j : ℕ) (hi : i < n) (hj : j < n) :
    Asym A i j = ∑ k ∈ range n, Lb L i k * D k * Lb L j k := by
  rcases le_total j i with h | h
  · exact factor_le n A D L hD hL i j hi hj h
  · rw [Asym_symm, factor_le n A D L hD hL j i hj hi h]
    exact Finset.sum_congr rfl (fun k _ => by ring)

/-- A x = Lb (D (Lb^T x)) -/
theorem Asym_mul
    (n : ℕ) (A : ℕ → ℕ → F) (D : ℕ → F) (L : ℕ → ℕ → F)
    (hD : ∀ j, j < n → D j = A j j - ∑ k ∈ Ico (j - 5) j, L j k * L j k * D k)
    (hL : ∀ i j, j < i → i < n → i ≤ j + 5 →
        L i j * D j = A i j - ∑ k ∈ Ico (i - 5) j, L i k * L j k * D k)
    (x : ℕ → F) (i : ℕ) (hi : i < n) :
    ∑ j ∈ range n, Asym A i j * x j
      = ∑ k ∈ range n, Lb L i k * (D k * ∑ j ∈ range n, Lb L j k * x j) := by
  calc ∑ j ∈ range n, Asym A i j * x j
      = ∑ j ∈ range n, ∑ k ∈ range n, Lb L i k * D k * Lb L j k * x j := by
        apply Finset.sum_congr rfl
        intro j hj
        rw [mem_range] at hj
        rw [factor n A D L hD hL i j hi hj, Finset.sum_mul]
    _ = ∑ k ∈ range n, ∑ j ∈ range n, Lb L i k * D k * Lb L j k * x j := Finset.sum_comm
    _ = ∑ k ∈ range n, Lb L i k * (D k * ∑ j ∈ range n, Lb L j k * x j) := by
        apply Finset.sum_congr rfl
        intro k _
        rw [Finset.mul_sum, Finset.mul_sum]
        apply Finset.sum_congr rfl
        intro j _
        ring

/-- the LDL^T recurrences imply that X solves the banded symmetric system -/
theorem ldlt_solves
    (n : ℕ) (A : ℕ → ℕ → F) (b D Y Z X : ℕ → F) (L : ℕ → ℕ → F)
    (hD : ∀ j, j < n → D j = A j j - ∑ k ∈ Ico (j - 5) j, L j k * L j k * D k)
    (hL : ∀ i j, j < i → i < n → i ≤ j + 5 →
        L i j * D j = A i j - ∑ k ∈ Ico (i - 5) j, L i k * L j k * D k)
    (hY : ∀ j, j < n → Y j = b j - ∑ k ∈ Ico (j - 5) j, L j k * Y k)
    (hZ : ∀ j, j < n → Z j * D j = Y j)
    (hX : ∀ j, j < n → X j = Z j - ∑ k ∈ Ico (j + 1) (min n (j + 6)), L k j * X k) :
    ∀ i, i < n → ∑ j ∈ range n, Asym A i j * X j = b i := by
  intro i hi
  rw [Asym_mul n A D L hD hL X i hi]
  have h1 : ∀ k ∈ range n,
      Lb L i k * (D k * ∑ j ∈ range n, Lb L j k * X j) = Lb L i k * Y k := by
    intro k hk
    rw [mem_range] at hk
    have hz : X k + ∑ k' ∈ Ico (k + 1) (min n (k + 6)), L k' k * X k' = Z k := by
      have := hX k hk
      rw [this]
      exact sub_add_cancel _ _
    rw [col_sum L X n k hk, hz, mul_comm (D k) (Z k), hZ k hk]
  rw [Finset.sum_congr rfl h1, row_sum L Y n i hi]
  have := hY i hi
  rw [this]
  exact sub_add_cancel _ _

/-- forward substitution with zero right-hand side -/
theorem forward_zero (L : ℕ → ℕ → F) (v : ℕ → F) (n : ℕ)
    (h : ∀ i, i < n → v i + ∑ k ∈ Ico (i - 5) i, L i k * v k = 0) :
    ∀ i, i < n → v i = 0 := by
  intro i
  induction i using Nat.strong_induction_on with
  | _ i ih =>
    intro hi
    have hs : ∑ k ∈ Ico (i - 5) i, L i k * v k = 0 := by
      apply Finset.sum_eq_zero
      intro k hk
      rw [mem_Ico] at hk
      have hkn : k < n := by omega
      rw [ih k hk.2 hkn, mul_zero]
    have := h i hi
    rw [hs, add_zero] at this
    exact this

/-- back substitution with zero right-hand side -/
theorem backward_zero (L : ℕ → ℕ → F) (d : ℕ → F) (n : ℕ)
    (h : ∀ j, j < n → d j + ∑ k ∈ Ico (j + 1) (min n (j + 6)), L k j * d k = 0) :
    ∀ j, j < n → d j = 0 := by
  have key : ∀ t j, j < n → n - j = t → d j = 0 := by
    intro t
    induction t using Nat.strong_induction_on with
    | _ t ih =>
      intro j hj ht
      have hs : ∑ k ∈ Ico (j + 1) (min n (j + 6)), L k j * d k = 0 := by
        apply Finset.sum_eq_zero
        intro k hk
        rw [mem_Ico, lt_min_iff] at hk
        have hk1 : k < n := hk.2.1
        have hk2 : n - k < t := by omega
        rw [ih (n - k) hk2 k hk1 rfl, mul_zero]
      have := h j hj
      rw [hs, add_zero] at this
      exact this
  intro j hj
  exact key (n - j) j hj rfl

/-- with non-zero pivots the solution is unique -/
theorem ldlt_unique
    (n : ℕ) (A : ℕ → ℕ → F) (b D Y Z X : ℕ → F) (L : ℕ → ℕ → F)
    (hD : ∀ j, j < n → D j = A j j - ∑ k ∈ Ico (j - 5) j, L j k * L j k * D k)
    (hL : ∀ i j, j < i → i < n → i ≤ j + 5 →
        L i j * D j = A i j - ∑ k ∈ Ico (i - 5) j, L i k * L j k * D k)
    (hY : ∀ j, j < n → Y j = b j - ∑ k ∈ Ico (j - 5) j, L j k * Y k)
    (hZ : ∀ j, j < n → Z j * D j = Y j)
    (hX : ∀ j, j < n → X j = Z j - ∑ k ∈ Ico (j + 1) (min n (j + 6)), L k j * X k)
    (hDne : ∀ j, j < n → D j ≠ 0)
    (x : ℕ → F) (hx : ∀ i, i < n → ∑ j ∈ range n, Asym A i j * x j = b i) :
    ∀ j, j < n → x j = X j := by
  have hsol := ldlt_solves n A b D Y Z X L hD hL hY hZ hX
  have hd0 : ∀ i, i < n → ∑ j ∈ range n, Asym A i j * (x j - X j) = 0 := by
    intro i hi
    have e : ∑ j ∈ range n, Asym A i j * (x j - X j)
        = ∑ j ∈ range n, Asym A i j * x j - ∑ j ∈ range n, Asym A i j * X j := by
      rw [← Finset.sum_sub_distrib]
      exact Finset.sum_congr rfl (fun j _ => by ring)
    rw [e, hx i hi, hsol i hi, sub_self]
  have hv : ∀ i, i < n → D i * (∑ j ∈ range n, Lb L j i * (x j - X j)) = 0 := by
    have hfz := forward_zero L (fun k => D k * ∑ j ∈ range n, Lb L j k * (x j - X j)) n
    intro i hi
    refine hfz ?_ i hi
    intro i' hi'
    have := hd0 i' hi'
    rw [Asym_mul n A D L hD hL (fun j => x j - X j) i' hi',
      row_sum L (fun k => D k * ∑ j ∈ range n, Lb L j k * (x j - X j)) n i' hi'] at this
    exact this
  have hw : ∀ k, k < n → ∑ j ∈ range n, Lb L j k * (x j - X j) = 0 := by
    intro k hk
    rcases mul_eq_zero.mp (hv k hk) with h | h
    · exact absurd h (hDne k hk)
    · exact h
  have hdz : ∀ j, j < n → x j - X j = 0 := by
    have hbz := backward_zero L (fun j => x j - X j) n
    intro j hj
    refine hbz ?_ j hj
    intro j' hj'
    have := hw j' hj'
    rw [col_sum L (fun j => x j - X j) n j' hj'] at this
    exact this
  intro j hj
  exact sub_eq_zero.mp (hdz j hj)

end LDLT

#print axioms LDLT.partial_sum_eq
#print axioms LDLT.ldlt_solves
#print axioms LDLT.ldlt_unique
