"""Symbolic executor for the numba-nopython subset used by emg3d's kernels.

Semantics assumed (DESIGN.md 2.2/2.3): Python ints are mathematical integers,
floats/complex are mathematical reals (elements of a commutative Q-algebra for the
polynomial identities), arrays are functional maps index -> term with a symbolic shape.
Execution is *predicated*: an `if` whose test is undecided under the path condition
runs both branches under guards; scalar assignments become ite-terms and array writes
become guarded writes.  Every subscript is recorded for a bounds obligation.
"""
import ast
import itertools
import z3

from . import intake


class OutsideSubset(Exception):
    pass


class StopExec(Exception):
    pass


I = z3.IntSort()
RS = z3.RealSort()

# generic reciprocal: a / b  ==>  a * rcp(b)  with side axiom  b * rcp(b) == 1
RCP = z3.Function('rcp', RS, RS)


def R(x):
    if isinstance(x, bool):
        return z3.BoolVal(x)
    if isinstance(x, int):
        return z3.IntVal(x)
    if isinstance(x, float):
        return z3.RealVal(repr(x)) if x == x and abs(x) != float('inf') else _bad(x)
    return x


def _bad(x):
    raise OutsideSubset(f'non-finite literal {x}')


def toreal(x):
    x = R(x)
    if z3.is_int(x):
        return z3.simplify(z3.ToReal(x)) if z3.is_int_value(x) else z3.ToReal(x)
    return x


def is_conc(x):
    return isinstance(x, (int, float, bool)) or x is None or isinstance(x, str)


def as_int(x):
    """concrete python int of a value, or None"""
    if isinstance(x, bool):
        return int(x)
    if isinstance(x, int):
        return x
    if isinstance(x, float) and x == int(x):
        return int(x)
    if z3.is_expr(x):
        s = z3.simplify(x)
        if z3.is_int_value(s):
            return s.as_long()
    return None


class ArrState:
    """Immutable functional array: base read function + chain of guarded writes."""
    __slots__ = ('base', 'writes')

    def __init__(self, base, writes=()):
        self.base = base
        self.writes = writes

    def read(self, idx):
        v = self.base(*idx)
        for g, widx, wval in self.writes:
            if widx == 'region':
                # wval(idx) -> (condition that idx lies in the written region, value written there)
                cond, val = wval(idx)
                if g is not None:
                    cond = z3.And(g, cond)
                v = z3.If(cond, val, v)
                continue
            cs = [a == b for a, b in zip(idx, widx)]
            if g is not None:
                cs.append(g)
            cond = z3.And(*cs) if len(cs) > 1 else cs[0]
            v = z3.If(cond, wval, v)
        return v

    def write(self, guard, idx, val):
        return ArrState(self.base, self.writes + ((guard, tuple(idx), val),))

    def write_region(self, guard, fn):
        return ArrState(self.base, self.writes + ((guard, 'region', fn),))


class ArrObj:
    """Mutable cell holding an ArrState; object identity models aliasing."""
    _ids = itertools.count()

    def __init__(self, name, shape, base=None, sort=RS):
        self.name = name
        self.shape = tuple(shape)
        self.sort = sort
        self.uid = next(ArrObj._ids)
        if base is None:
            f = z3.Function(f'{name}', *([I] * len(self.shape)), sort)
            base = f
            self.fn = f
        self.st = ArrState(base)
        self.st0 = self.st

    @property
    def ndim(self):
        return len(self.shape)

    def read(self, idx):
        return self.st.read([R(i) for i in idx])

    def read0(self, idx):
        return self.st0.read([R(i) for i in idx])

    def __call__(self, *idx):          # spec-side accessor: current contents
        return self.read(idx)


class LocalArr:
    """Small array of concrete length (np.zeros(6), np.array([...]))."""

    def __init__(self, vals, name='local'):
        self.vals = list(vals)
        self.name = name

    @property
    def shape(self):
        return (len(self.vals),)


class View:
    """1-D basic slice of an ArrObj/LocalArr: index map i -> start + i (step 1)."""

    def __init__(self, obj, start, length):
        self.obj, self.start, self.length = obj, start, length

    @property
    def shape(self):
        return (self.length,)


class ViewND:
    """basic (strided) slice of an ArrObj: per source axis either a fixed index or (start, step, length)"""

    def __init__(self, obj, axes, state=None):
        self.obj = obj
        self.axes = axes            # list of ('idx', e) | ('sl', start, step, length)
        self.st = state             # ArrState captured at creation for value semantics (None: live view)

    @property
    def shape(self):
        return tuple(a[3] for a in self.axes if a[0] == 'sl')

    @property
    def ndim(self):
        return len(self.shape)

    def src_index(self, idx):
        out, k = [], 0
        for a in self.axes:
            if a[0] == 'idx':
                out.append(R(a[1]))
            else:
                out.append(R(a[1]) + R(a[2]) * R(idx[k]))
                k += 1
        return out

    def in_view(self, src_idx):
        """(condition that the source index lies in the view, view index)"""
        conds, vidx = [], []
        for a, s_ in zip(self.axes, src_idx):
            if a[0] == 'idx':
                conds.append(s_ == R(a[1]))
            else:
                st, step, ln = R(a[1]), a[2], R(a[3])
                if step == 1:
                    q = s_ - st
                else:
                    conds.append((s_ - st) % step == 0)
                    q = (s_ - st) / step
                conds.append(z3.And(q >= 0, q < ln))
                vidx.append(q)
        return z3.And(*conds), vidx

    def read(self, idx):
        st = self.st if self.st is not None else self.obj.st
        return st.read(self.src_index(idx))


class Concat:
    """np.r_[a, b, ...] of 1-D arrays / scalars: read function over the concatenation"""

    def __init__(self, parts):
        self.parts = parts          # list of ('arr', ArrObj) | ('scalar', value)

    def elem(self, i):
        """value at index i as (cases): list of (condition, value)"""
        out, off = [], IntVal0
        for kind, v in self.parts:
            if kind == 'arr':
                n = R(v.shape[0])
                out.append((z3.And(i >= off, i < off + n), v.read([i - off])))
                off = off + n
            else:
                out.append((i == off, v))
                off = off + 1
        return out, off


class CondArr:
    """boolean 1-D array  scalar < Concat  etc."""

    def __init__(self, fn, length):
        self.fn, self.length = fn, length


class FirstIndex:
    pass


IntVal0 = z3.IntVal(0)
INF = z3.Real('INFINITY')     # np.inf: larger than every finite coordinate (used only in comparisons)


class Opaque:
    def __init__(self, what):
        self.what = what

    def __repr__(self):
        return f'<opaque {self.what}>'


class Ex:
    """One symbolic execution of a function body."""

    def __init__(self, modname, pc=None, funcs=None, loops=None, fresh_prefix=''):
        self.mod = modname
        self.env = {}
        self.pc = list(pc or [])         # assumed facts
        self.guards = []                 # predication stack
        self.funcs = funcs or {}         # name -> handler(ex, args, node)
        self.loops = loops or {}         # loop ordinal -> policy
        self.bounds = []                 # recorded subscript obligations
        self.snap = {}                   # label -> snapshot
        self.rcp_terms = {}              # str(term) -> term   (divisors seen)
        self.retval = None
        self.loop_index = {}             # id(node) -> ordinal
        self.fresh = itertools.count()
        self.fp = fresh_prefix
        self.arrays = []                 # every ArrObj created / bound
        self.region_writes = []
        self.first_index_facts = []
        self.while_obligations = []
        self.inv_obligations = []        # (id, hyps, goal) of the invariant rule for `for` loops
        self.skipped = []                # conditional `continue`s met under continue_policy='assume-not'
        self.continue_policy = None
        self._solver = None
        self._solver_n = -1
        self.depth = 0

    # ------------------------------------------------------------ helpers
    def hyps(self):
        return self.pc + self.guards

    def solver(self):
        s = z3.Solver()
        s.set('timeout', 10000)
        for h in self.hyps():
            s.add(h)
        return s

    def decide(self, c):
        c = R(c)
        if z3.is_true(z3.simplify(c)):
            return True
        if z3.is_false(z3.simplify(c)):
            return False
        s = self.solver()
        s.push()
        s.add(z3.Not(c))
        r = s.check()
        s.pop()
        if r == z3.unsat:
            return True
        s.add(c)
        if s.check() == z3.unsat:
            return False
        return None

    def guard(self):
        if not self.guards:
            return None
        return z3.And(*self.guards) if len(self.guards) > 1 else self.guards[0]

    def new_array(self, name, shape, base=None, sort=RS):
        a = ArrObj(name, shape, base, sort)
        self.arrays.append(a)
        return a

    def rcp(self, b):
        b = toreal(b)
        bs = z3.simplify(b)
        if z3.is_rational_value(bs):
            if bs.as_fraction() == 0:
                raise OutsideSubset('division by literal zero')
            return z3.RealVal(1) / bs
        self.rcp_terms[str(bs)] = bs
        return RCP(bs)

    # ------------------------------------------------------------ expressions
    def ev(self, n):
        m = getattr(self, 'ev_' + type(n).__name__, None)
        if m is None:
            raise OutsideSubset(f'expression {type(n).__name__} at line {getattr(n, "lineno", "?")}')
        return m(n)

    def ev_Constant(self, n):
        return n.value

    def ev_Name(self, n):
        if n.id in self.env:
            return self.env[n.id]
        if n.id in ('np', 'nb'):
            return Opaque(n.id)
        if n.id in ('True', 'False', 'None'):
            return {'True': True, 'False': False, 'None': None}[n.id]
        raise OutsideSubset(f'unbound name {n.id} at line {n.lineno}')

    def ev_Tuple(self, n):
        return tuple(self.ev(e) for e in n.elts)

    ev_List = ev_Tuple

    def ev_UnaryOp(self, n):
        v = self.ev(n.operand)
        if isinstance(n.op, ast.USub):
            return self.binop(ast.Sub(), 0, v, n)
        if isinstance(n.op, ast.UAdd):
            return v
        if isinstance(n.op, ast.Not):
            return (not v) if is_conc(v) else z3.Not(self.tobool(v))
        raise OutsideSubset('unary op')

    def tobool(self, v):
        if isinstance(v, bool):
            return z3.BoolVal(v)
        if is_conc(v):
            return z3.BoolVal(bool(v))
        if z3.is_bool(v):
            return v
        if z3.is_int(v) or z3.is_real(v):
            return v != 0
        raise OutsideSubset('truth value')

    def ev_BoolOp(self, n):
        vs = [self.ev(v) for v in n.values]
        if all(is_conc(v) for v in vs):
            r = vs[0]
            for v in vs[1:]:
                r = (r and v) if isinstance(n.op, ast.And) else (r or v)
            return r
        bs = [self.tobool(v) for v in vs]
        return z3.And(*bs) if isinstance(n.op, ast.And) else z3.Or(*bs)

    def ev_Compare(self, n):
        left = self.ev(n.left)
        res = []
        for op, rn in zip(n.ops, n.comparators):
            right = self.ev(rn)
            res.append(self.cmp(op, left, right))
            left = right
        if all(isinstance(r, bool) for r in res):
            return all(res)
        res = [R(r) for r in res]
        return z3.And(*res) if len(res) > 1 else res[0]

    def cmp(self, op, a, b):
        if isinstance(op, (ast.In, ast.NotIn)):
            # membership in a literal tuple / list of scalars: disjunction of equalities
            if not isinstance(b, (tuple, list)):
                raise OutsideSubset('membership test in something other than a tuple/list of scalars')
            eqs = [self.cmp(ast.Eq(), a, x) for x in b]
            if all(isinstance(e, bool) for e in eqs):
                r = any(eqs)
                return r if isinstance(op, ast.In) else not r
            r = z3.Or(*[R(e) for e in eqs]) if eqs else z3.BoolVal(False)
            return r if isinstance(op, ast.In) else z3.Not(r)
        if type(op) not in (ast.Eq, ast.NotEq, ast.Lt, ast.LtE, ast.Gt, ast.GtE, ast.Is, ast.IsNot):
            raise OutsideSubset(f'comparison operator {type(op).__name__}')
        if isinstance(b, Concat) or isinstance(a, Concat):
            if isinstance(a, Concat):
                raise OutsideSubset('array on the left of a comparison')
            cat = b

            def fn(i, a=a, cat=cat, op=op):
                cases, total = cat.elem(i)
                r = z3.BoolVal(False)
                for cnd, v in reversed(cases):
                    r = z3.If(cnd, self.cmp(op, a, v), r)
                return r
            cases, total = cat.elem(z3.IntVal(0))
            return CondArr(fn, total)
        if is_conc(a) and is_conc(b):
            return {ast.Eq: a == b, ast.NotEq: a != b, ast.Lt: None, ast.LtE: None,
                    ast.Gt: None, ast.GtE: None, ast.Is: a is b, ast.IsNot: a is not b}[type(op)] \
                if type(op) in (ast.Eq, ast.NotEq, ast.Is, ast.IsNot) else \
                {ast.Lt: a < b, ast.LtE: a <= b, ast.Gt: a > b, ast.GtE: a >= b}[type(op)]
        a, b = R(a), R(b)
        if z3.is_int(a) != z3.is_int(b):
            a, b = toreal(a), toreal(b)
        return {ast.Eq: lambda: a == b, ast.NotEq: lambda: a != b, ast.Lt: lambda: a < b,
                ast.LtE: lambda: a <= b, ast.Gt: lambda: a > b, ast.GtE: lambda: a >= b}[type(op)]()

    def ev_IfExp(self, n):
        c = self.ev(n.test)
        if is_conc(c):
            return self.ev(n.body if c else n.orelse)
        d = self.decide(self.tobool(c))
        if d is True:
            return self.ev(n.body)
        if d is False:
            return self.ev(n.orelse)
        return self.ite(self.tobool(c), self.ev(n.body), self.ev(n.orelse))

    def ite(self, c, a, b):
        if a is b:
            return a
        a, b = R(a), R(b)
        if z3.is_int(a) and z3.is_int(b):
            return z3.If(c, a, b)
        if z3.is_bool(a) and z3.is_bool(b):
            return z3.If(c, a, b)
        return z3.If(c, toreal(a), toreal(b))

    def ev_BinOp(self, n):
        return self.binop(n.op, self.ev(n.left), self.ev(n.right), n)

    def arrlike(self, v):
        return isinstance(v, (ArrObj, LocalArr, View, ViewND))

    def length(self, v):
        return v.shape[0]

    def elem(self, v, i):
        """read element i (python int or z3 Int) of a 1-D arraylike, no bounds record"""
        if isinstance(v, LocalArr):
            k = as_int(i)
            if k is None:
                raise OutsideSubset('symbolic index into local array')
            return v.vals[k]
        if isinstance(v, View):
            return self.elem(v.obj, R(v.start) + R(i))
        return v.read([i])

    def binop(self, op, a, b, node=None):
        if isinstance(a, Opaque) or isinstance(b, Opaque):
            return Opaque('binop')
        if self.arrlike(a) or self.arrlike(b):
            return self.arr_binop(op, a, b, node)
        if isinstance(a, tuple) and isinstance(b, tuple) and isinstance(op, ast.Add):
            return a + b
        if is_conc(a) and is_conc(b):
            if isinstance(op, ast.Div):
                # keep exact: ints/finite decimals -> rational via z3
                return self.binop(op, R(a), R(b), node)
            return {ast.Add: lambda: a + b, ast.Sub: lambda: a - b, ast.Mult: lambda: a * b,
                    ast.FloorDiv: lambda: a // b, ast.Mod: lambda: a % b,
                    ast.Pow: lambda: a ** b}[type(op)]()
        if isinstance(op, ast.Mult):
            for u, w in ((a, b), (b, a)):
                if is_conc(u) and not isinstance(u, (str, bool)) and u is not None:
                    if u == 0:
                        return 0 if (isinstance(u, int) and z3.is_int(R(w))) else z3.RealVal(0)
                    if u == 1 and isinstance(u, int):
                        return w
        if isinstance(op, (ast.Add, ast.Sub)) and is_conc(b) and b == 0 and isinstance(b, int):
            return a
        a, b = R(a), R(b)
        if isinstance(op, ast.Div):
            return z3.simplify(toreal(a) * self.rcp(b)) if z3.is_rational_value(z3.simplify(toreal(b))) \
                else toreal(a) * self.rcp(b)
        if isinstance(op, (ast.FloorDiv, ast.Mod)):
            if not (z3.is_int(a) and z3.is_int(b)):
                raise OutsideSubset('// or % on non-integers')
            k = as_int(b)
            if k is None or k <= 0:
                raise OutsideSubset('// or % by non-positive/symbolic')
            # z3 div/mod are euclidean; for positive divisor equal to Python floor semantics
            return a / b if isinstance(op, ast.FloorDiv) else a % b
        if isinstance(op, ast.Pow):
            k = as_int(b)
            if k is None or k < 0:
                raise OutsideSubset('** with non-constant exponent')
            r = R(1)
            for _ in range(k):
                r = self.binop(ast.Mult(), r, a)
            return r
        if z3.is_int(a) != z3.is_int(b):
            a, b = toreal(a), toreal(b)
        return {ast.Add: lambda: a + b, ast.Sub: lambda: a - b, ast.Mult: lambda: a * b}[type(op)]()

    def arr_binop(self, op, a, b, node):
        """element-wise array op -> fresh array whose base captures operand states"""
        def acc(v):
            if isinstance(v, ViewND):
                st = v.obj.st
                vv = ViewND(v.obj, v.axes, state=st)
                return (lambda *idx: vv.read(idx)), vv.shape
            if isinstance(v, ArrObj):
                st = v.st
                return (lambda *idx: st.read(idx)), v.shape
            if isinstance(v, LocalArr):
                vals = list(v.vals)
                return None, (len(vals),), vals
            if isinstance(v, View):
                o, s = v.obj, v.start
                if isinstance(o, ArrObj):
                    st = o.st
                    return (lambda i: st.read([R(s) + i])), (v.length,)
                vals = list(o.vals)[as_int(s):as_int(s) + as_int(v.length)]
                return None, (len(vals),), vals
            return None
        A, B = acc(a), acc(b)
        # local (concrete length) result if either side is local
        loc = [x for x in (A, B) if x is not None and len(x) == 3]
        if loc:
            n = loc[0][1][0]

            def el(X, v, i):
                if X is None:
                    return v
                if len(X) == 3:
                    return X[2][i]
                return X[0](R(i))
            return LocalArr([self.binop(op, el(A, a, i), el(B, b, i)) for i in range(n)])
        shape = (A or B)[1]
        if A is not None and B is not None:
            if len(A[1]) != len(B[1]):
                raise OutsideSubset('broadcasting between arrays of different rank')
            # shapes must agree (no broadcasting): recorded as an obligation
            self.bounds.append(dict(arr='shape-match', idx=tuple(R(x) for x in A[1]), shape=tuple(R(y) + 1 for y in B[1]),
                                    hyps=list(self.hyps()), line=getattr(node, 'lineno', 0), kind='shape',
                                    eq=[(R(x), R(y)) for x, y in zip(A[1], B[1])]))

        def base(*idx, A=A, B=B, a=a, b=b, op=op):
            x = A[0](*idx) if A is not None else a
            y = B[0](*idx) if B is not None else b
            return self.binop(op, x, y)
        return self.new_array(f'tmp{next(self.fresh)}', shape, base=base)

    def first_index(self, cond):
        """dependency contract: np.where(c)[0][0] is the first index at which c holds (requires that one exists:
        recorded as an obligation)"""
        i = z3.Int(f'{self.fp}first{next(self.fresh)}')
        self.pc += [i >= 0, i < R(cond.length), cond.fn(i), z3.Implies(i >= 1, z3.Not(cond.fn(i - 1)))]
        j = z3.Int(f'{self.fp}anyj{next(self.fresh)}')
        self.first_index_facts.append((i, cond))
        return i

    def ev_Attribute(self, n):
        v = self.ev(n.value)
        if isinstance(v, Opaque) and v.what == 'np' and n.attr == 'inf':
            return INF
        if isinstance(v, Opaque) and v.what == 'np' and n.attr == 'r_':
            return Opaque('np.r_')
        if n.attr == 'shape' and hasattr(v, 'shape'):
            return tuple(v.shape)
        if n.attr == 'size' and hasattr(v, 'shape') and len(v.shape) == 1:
            return v.shape[0]
        if n.attr == 'dtype':
            return Opaque('dtype')
        if isinstance(v, Opaque):
            return Opaque(f'{v.what}.{n.attr}')
        if isinstance(v, dict) and n.attr in v:
            return v[n.attr]
        raise OutsideSubset(f'attribute .{n.attr} at line {n.lineno}')

    def index_list(self, sl):
        return list(sl.elts) if isinstance(sl, ast.Tuple) else [sl]

    def norm_index(self, i, dim):
        """python negative literal index rule"""
        k = as_int(i) if not isinstance(i, int) else i
        if k is not None and k < 0:
            return R(dim) + k if not isinstance(dim, int) else dim + k
        return i

    def record_bounds(self, arr, idx, node, kind):
        self.bounds.append(dict(arr=arr.name, idx=tuple(R(i) for i in idx), shape=tuple(R(s) for s in arr.shape),
                                hyps=list(self.hyps()), line=getattr(node, 'lineno', 0), kind=kind))

    def slice_of(self, v, sl):
        """basic 1-D slice with step 1 (or None)"""
        n = self.length(v)
        lo = self.ev(sl.lower) if sl.lower is not None else 0
        hi = self.ev(sl.upper) if sl.upper is not None else n
        if sl.step is not None and as_int(self.ev(sl.step)) != 1:
            raise OutsideSubset('slice step')
        lo = self.norm_index(lo, n)
        hi = self.norm_index(hi, n)
        base, off = (v.obj, v.start) if isinstance(v, View) else (v, 0)
        ln = self.binop(ast.Sub(), hi, lo)
        st = self.binop(ast.Add(), off, lo)
        return View(base, st, as_int(ln) if as_int(ln) is not None else ln)

    def _with_slice_objects(self, sl):
        """subscript elements that are names bound to slice(...) objects are replaced by the slice they stand for"""
        def conv(e):
            if isinstance(e, ast.Name) and isinstance(self.env.get(e.id), tuple) and self.env[e.id][:1] == ('sliceobj',):
                _, a, b, c = self.env[e.id]
                mk = lambda x: None if x is None else ast.Constant(value=x)
                return ast.copy_location(ast.Slice(lower=mk(a), upper=mk(b), step=mk(c)), e)
            return e
        if isinstance(sl, ast.Tuple):
            new = [conv(e) for e in sl.elts]
            if any(a is not b for a, b in zip(new, sl.elts)):
                return ast.copy_location(ast.Tuple(elts=new, ctx=ast.Load()), sl)
            return sl
        return conv(sl)

    def ev_Subscript(self, n):
        sl2 = self._with_slice_objects(n.slice)
        if sl2 is not n.slice:
            n = ast.copy_location(ast.Subscript(value=n.value, slice=sl2, ctx=n.ctx), n)
        v = self.ev(n.value)
        if isinstance(v, Opaque) and v.what == 'np.r_':
            parts = []
            for e in self.index_list(n.slice):
                x = self.ev(e)
                parts.append(('arr', x) if isinstance(x, ArrObj) else ('scalar', x))
            return Concat(parts)
        if isinstance(v, tuple) and len(v) == 2 and v[0] == 'where-result':
            k = as_int(self.ev(n.slice))
            if k != 0:
                raise OutsideSubset('np.where(...)[k] with k != 0')
            return ('where-indices', v[1])
        if isinstance(v, tuple) and len(v) == 2 and v[0] == 'where-indices':
            k = as_int(self.ev(n.slice))
            if k != 0:
                raise OutsideSubset('np.where(...)[0][k] with k != 0')
            return self.first_index(v[1])
        if isinstance(v, Opaque):
            return Opaque('subscript')
        if isinstance(v, tuple):
            k = as_int(self.ev(n.slice))
            if k is None:
                raise OutsideSubset('symbolic tuple index')
            return v[k]
        if isinstance(v, ArrObj) and (isinstance(n.slice, ast.Slice) and v.ndim > 1 or
                                      isinstance(n.slice, ast.Tuple) and any(isinstance(e, ast.Slice) for e in n.slice.elts)
                                      or isinstance(n.slice, ast.Slice) and n.slice.step is not None):
            return self.view_nd(v, n.slice)
        if isinstance(n.slice, ast.Slice):
            return self.slice_of(v, n.slice)
        idx = [self.ev(i) for i in self.index_list(n.slice)]
        return self.read(v, idx, n)

    def view_nd(self, v, sl):
        elts = list(sl.elts) if isinstance(sl, ast.Tuple) else [sl]
        if len(elts) != v.ndim:
            raise OutsideSubset('partial slicing')
        axes = []
        for e, dim in zip(elts, v.shape):
            if isinstance(e, ast.Slice):
                step = as_int(self.ev(e.step)) if e.step is not None else 1
                if step is None or step <= 0:
                    raise OutsideSubset('slice step')
                lo = self.norm_index(self.ev(e.lower), dim) if e.lower is not None else 0
                hi = self.norm_index(self.ev(e.upper), dim) if e.upper is not None else dim
                span = self.binop(ast.Sub(), hi, lo)
                ln = span if step == 1 else self.binop(ast.FloorDiv(), self.binop(ast.Add(), span, step - 1), step)
                axes.append(('sl', lo, step, ln))
                # slice bounds must lie inside the array (python would clip silently; we require it)
                self.bounds.append(dict(arr=v.name, idx=(R(lo), R(hi)), shape=(R(dim) + 1, R(dim) + 1), hyps=list(self.hyps()),
                                        line=getattr(e, 'lineno', 0), kind='slice'))
            else:
                i = self.norm_index(self.ev(e), dim)
                self.bounds.append(dict(arr=v.name, idx=(R(i),), shape=(R(dim),), hyps=list(self.hyps()),
                                        line=getattr(e, 'lineno', 0), kind='read'))
                axes.append(('idx', i))
        return ViewND(v, axes)

    def read(self, v, idx, node=None):
        if isinstance(v, LocalArr):
            i = self.norm_index(idx[0], len(v.vals))
            k = as_int(i)
            if k is None:
                raise OutsideSubset('symbolic index into local array')
            if not 0 <= k < len(v.vals):
                raise OutsideSubset(f'local array index {k} out of range (line {getattr(node, "lineno", "?")})')
            return v.vals[k]
        if isinstance(v, View):
            i = self.norm_index(idx[0], v.length)
            return self.read(v.obj, [self.binop(ast.Add(), v.start, i)], node)
        if isinstance(v, ArrObj):
            if len(idx) != v.ndim:
                raise OutsideSubset(f'partial indexing of {v.name}')
            idx = [self.norm_index(i, d) for i, d in zip(idx, v.shape)]
            self.record_bounds(v, idx, node, 'read')
            return v.read(idx)
        raise OutsideSubset(f'subscript of {type(v).__name__}')

    def ev_Call(self, n):
        f = n.func
        name = None
        if isinstance(f, ast.Name):
            name = f.id
        elif isinstance(f, ast.Attribute):
            base = f.value
            if isinstance(base, ast.Name) and base.id in ('np', 'numpy'):
                name = 'np.' + f.attr
            elif ast.unparse(f).startswith(('np.', 'numpy.')):
                name = 'np.' + ast.unparse(f).split('.', 1)[1]
            else:
                name = '.' + f.attr
        if name in self.funcs:
            return self.funcs[name](self, [self.ev(a) for a in n.args], n)
        if name in self.env and isinstance(self.env[name], tuple) and self.env[name][:1] == ('localfn',):
            sub = self.inline(self.env[name][1], [self.ev(a) for a in n.args], n, outer_env=self.env)
            return sub
        if name in ('max', 'min'):
            args = [self.ev(a) for a in n.args]
            if all(is_conc(a) for a in args):
                return (max if name == 'max' else min)(*args)
            r = R(args[0])
            for a in args[1:]:
                a = R(a)
                if z3.is_int(r) != z3.is_int(a):
                    r, a = toreal(r), toreal(a)
                r = z3.If(r >= a, r, a) if name == 'max' else z3.If(r <= a, r, a)
            return r
        if name in ('np.where', 'np.nonzero') and len(n.args) == 1 and not n.keywords:
            # one-argument np.where is np.nonzero
            c = self.ev(n.args[0])
            if not isinstance(c, CondArr):
                raise OutsideSubset(f'{name} of a non-comparison')
            return ('where-result', c)
        if name == 'np.append' and len(n.args) == 2 and not n.keywords:
            # np.append(a, x) of a 1-D array and a scalar (or 1-D array) is np.r_[a, x]
            parts = []
            for e in n.args:
                x = self.ev(e)
                parts.append(('arr', x) if isinstance(x, ArrObj) else ('scalar', x))
            if not (isinstance(parts[0][1], ArrObj) and len(parts[0][1].shape) == 1):
                raise OutsideSubset('np.append of something that is not a 1-D array')
            return Concat(parts)
        if name in ('.any', '.all') and isinstance(f, ast.Attribute) and not n.args:
            v = self.ev(f.value)
            if isinstance(v, LocalArr):
                nz = [toreal(R(x)) != 0 for x in v.vals]
                return z3.Or(*nz) if name == '.any' else z3.And(*nz)
            raise OutsideSubset(f'{name[1:]}() of a non-local array at line {n.lineno}')
        if name == 'np.searchsorted' and len(n.args) == 2 and all(k.arg == 'side' and isinstance(k.value, ast.Constant) and k.value.value in ('left', 'right')
                                                                   for k in n.keywords):
            # dependency contract (sorted first argument): side='left': the insertion point is the first index i in 0..n with a[i] >= v,
            # side='right': the first index with a[i] > v (i == n when there is none)  --  the same shape as np.where(v <= np.r_[a, inf])[0][0]
            side = n.keywords[0].value.value if n.keywords else 'left'
            a, v = self.ev(n.args[0]), self.ev(n.args[1])
            if not isinstance(a, ArrObj) or len(a.shape) != 1:
                raise OutsideSubset('np.searchsorted on something that is not a 1-D array')
            nlen = R(a.shape[0])
            if side == 'left':
                cond = CondArr(lambda i, a=a, v=v, nlen=nlen: z3.If(R(i) < nlen, toreal(R(v)) <= toreal(R(a.read([R(i)]))), z3.BoolVal(True)), nlen + 1)
            else:
                cond = CondArr(lambda i, a=a, v=v, nlen=nlen: z3.If(R(i) < nlen, toreal(R(v)) < toreal(R(a.read([R(i)]))), z3.BoolVal(True)), nlen + 1)
            return self.first_index(cond)
        if name == 'slice' and 1 <= len(n.args) <= 3 and not n.keywords:
            a = [self.ev(x) for x in n.args]
            if not all(x is None or isinstance(x, int) for x in a):
                raise OutsideSubset('slice() with non-literal bounds')
            a = [None, a[0], None] if len(a) == 1 else (a + [None])[:3]
            return ('sliceobj', a[0], a[1], a[2])
        if name == 'len':
            v = self.ev(n.args[0])
            if isinstance(v, tuple):
                return len(v)
            return v.shape[0]
        if name == 'abs':
            v = self.ev(n.args[0])
            if is_conc(v):
                return abs(v)
            return z3.If(v >= 0, v, -v)
        if name in ('np.zeros', 'np.ones', 'np.empty'):
            shp = self.ev(n.args[0])
            shp = shp if isinstance(shp, tuple) else (shp,)
            is_int = any(k.arg == 'dtype' and 'int' in ast.unparse(k.value) for k in n.keywords)
            fill = {'np.zeros': z3.RealVal(0), 'np.ones': z3.RealVal(1), 'np.empty': None}[name]
            if is_int:
                fill = None if fill is None else z3.IntVal(0 if name == 'np.zeros' else 1)
            if len(shp) == 1 and as_int(shp[0]) is not None and as_int(shp[0]) <= 64:
                k = as_int(shp[0])
                if fill is None:
                    return LocalArr([z3.Real(f'{self.fp}empty{next(self.fresh)}') for _ in range(k)])
                return LocalArr([fill] * k)
            srt = I if is_int else RS
            if fill is None:
                return self.new_array(f'{self.fp}empty{next(self.fresh)}', shp, sort=srt)
            return self.new_array(f'{self.fp}const{next(self.fresh)}', shp, base=lambda *i, fill=fill: fill, sort=srt)
        if name == 'np.array':
            v = self.ev(n.args[0])
            return LocalArr(list(v))
        if name == 'range':
            raise OutsideSubset('range outside for')
        # in-module helper without contract: inline
        try:
            node, _, _ = intake.func(f'{self.mod}.{name}') if name and '.' not in name else (None, None, None)
        except intake.IntakeError:
            node = None
        if node is not None and self.depth < 3:
            return self.inline(node, [self.ev(a) for a in n.args], n)
        raise OutsideSubset(f'call {ast.unparse(f)} at line {n.lineno}')

    # ------------------------------------------------------------ statements
    def run(self, stmts):
        for s in stmts:
            m = getattr(self, 'st_' + type(s).__name__, None)
            if m is None:
                raise OutsideSubset(f'statement {type(s).__name__} at line {s.lineno}')
            skip = getattr(self, 'skipconds', None)
            if skip:
                # a `continue` was executed under some condition earlier in this iteration: the rest runs under its negation
                if any(c is True for c in skip):
                    return
                self.guards.append(z3.Not(z3.Or(*skip)) if len(skip) > 1 else z3.Not(skip[0]))
                try:
                    m(s)
                finally:
                    self.guards.pop()
            else:
                m(s)

    def run_iteration(self, body):
        """one loop iteration: `continue` conditions are local to it"""
        old = getattr(self, 'skipconds', None)
        self.skipconds = []
        try:
            self.run(body)
        finally:
            self.skipconds = old

    def st_Continue(self, s):
        if getattr(self, 'skipconds', None) is None:
            raise OutsideSubset('continue outside an interpreted loop')
        if self.guards and getattr(self, 'continue_policy', None) == 'assume-not':
            # contract-selected treatment of a conditional `continue`: the condition is RECORDED (the contract turns "this iteration is
            # never skipped" into an obligation) and the rest of the iteration is executed for the case that it does not hold
            cond = z3.And(*self.guards) if len(self.guards) > 1 else self.guards[0]
            self.skipped.append(dict(cond=cond, pc=list(self.pc), line=s.lineno))
            self.pc.append(z3.Not(cond))
            return
        self.skipconds.append(z3.And(*self.guards) if self.guards else True)

    def st_Pass(self, s):
        pass

    def st_FunctionDef(self, s):
        self.env[s.name] = ('localfn', s)

    def st_Expr(self, s):
        if isinstance(s.value, ast.Constant):
            return
        self.ev(s.value)

    def st_Return(self, s):
        if self.guards:
            raise OutsideSubset('return under undecided condition')
        self.retval = self.ev(s.value) if s.value is not None else None
        raise _Return()

    def st_Assign(self, s):
        val = self.ev(s.value)
        for t in s.targets:
            self.assign(t, val, s)

    def st_AugAssign(self, s):
        cur = self.ev(s.target)
        rhs = self.ev(s.value)
        if isinstance(cur, ArrObj) and isinstance(s.target, ast.Name):
            # numpy in-place element-wise update of the whole array
            new = self.arr_binop(s.op, cur, rhs, s)
            st_new = new.st
            if self.guard() is not None:
                raise OutsideSubset('whole-array update under a guard')
            cur.st = st_new
            return
        if isinstance(cur, ViewND) and isinstance(s.target, ast.Subscript):
            new = self.arr_binop(s.op, cur, rhs, s)
            return self.assign_view(cur, new, s)
        if isinstance(cur, ArrObj) or isinstance(cur, View) or isinstance(cur, LocalArr):
            raise OutsideSubset('whole-array augmented assignment')
        self.assign(s.target, self.binop(s.op, cur, rhs, s), s)

    def assign(self, tgt, val, node):
        g = self.guard()
        if isinstance(tgt, ast.Name):
            if g is not None and tgt.id in self.env and not self.arrlike(val) \
                    and not isinstance(val, (tuple, Opaque)) and not self.arrlike(self.env[tgt.id]):
                val = self.ite(g, val, self.env[tgt.id])
            elif g is not None and (self.arrlike(val) or isinstance(val, tuple)) and tgt.id in self.env:
                raise OutsideSubset('conditional rebinding of an array name')
            if isinstance(val, ArrObj) and val.name.startswith(('tmp', self.fp + 'const', self.fp + 'empty')):
                val.name = tgt.id          # bounds obligations are keyed by the source-level name
            self.env[tgt.id] = val
            return
        if isinstance(tgt, ast.Tuple):
            if not isinstance(val, tuple) or len(val) != len(tgt.elts):
                raise OutsideSubset('tuple unpacking')
            for t, v in zip(tgt.elts, val):
                self.assign(t, v, node)
            return
        if isinstance(tgt, ast.Subscript):
            a = self.ev(tgt.value)
            if isinstance(a, ArrObj) and (isinstance(tgt.slice, ast.Tuple) and any(isinstance(e, ast.Slice) for e in tgt.slice.elts)):
                return self.assign_view(self.view_nd(a, tgt.slice), val, node)
            if isinstance(tgt.slice, ast.Slice):
                sl = tgt.slice
                if sl.lower is None and sl.upper is None and sl.step is None and not self.arrlike(val):
                    return self.fill(a, val, g)
                raise OutsideSubset('slice assignment')
            idx = [self.ev(i) for i in self.index_list(tgt.slice)]
            return self.write(a, idx, val, node)
        raise OutsideSubset(f'assignment target {type(tgt).__name__}')

    def assign_view(self, view, val, node=None):
        """a[<slices>] = val   (val: scalar or array of the view's shape)"""
        g = self.guard()
        if self.arrlike(val):
            if isinstance(val, ViewND):
                src = ViewND(val.obj, val.axes, state=val.obj.st)
                rd = lambda vidx: src.read(vidx)
                shp = src.shape
            elif isinstance(val, ArrObj):
                st = val.st
                rd = lambda vidx: st.read(vidx)
                shp = val.shape
            else:
                raise OutsideSubset('slice assignment from a local array')
            self.bounds.append(dict(arr='shape-match', idx=(), shape=(), hyps=list(self.hyps()), line=getattr(node, 'lineno', 0),
                                    kind='shape', eq=[(R(x), R(y)) for x, y in zip(view.shape, shp)]))
        else:
            v0 = toreal(val)
            rd = lambda vidx: v0

        def layer(idx, view=view, rd=rd):
            cond, vidx = view.in_view([R(i) for i in idx])
            return cond, rd(vidx)
        view.obj.st = view.obj.st.write_region(g, layer)
        self.region_writes.append(dict(arr=view.obj.name, view=view, hyps=list(self.hyps()), line=getattr(node, 'lineno', 0)))

    def fill(self, a, val, g):
        val = toreal(val)
        if isinstance(a, LocalArr):
            a.vals = [val if g is None else z3.If(g, val, toreal(v)) for v in a.vals]
        elif isinstance(a, ArrObj):
            old = a.st
            if g is None:
                a.st = ArrState(lambda *i, val=val: val)
            else:
                a.st = ArrState(lambda *i, val=val, old=old, g=g: z3.If(g, val, old.read(i)))
        else:
            raise OutsideSubset('fill of view')

    def write(self, a, idx, val, node=None):
        g = self.guard()
        if isinstance(a, LocalArr):
            i = self.norm_index(idx[0], len(a.vals))
            k = as_int(i)
            if k is None or not 0 <= k < len(a.vals):
                raise OutsideSubset(f'local array store index (line {getattr(node, "lineno", "?")})')
            a.vals[k] = val if g is None else self.ite(g, val, a.vals[k])
            return
        if isinstance(a, View):
            i = self.norm_index(idx[0], a.length)
            return self.write(a.obj, [self.binop(ast.Add(), a.start, i)], val, node)
        if isinstance(a, ArrObj):
            idx = [R(self.norm_index(i, d)) for i, d in zip(idx, a.shape)]
            self.record_bounds(a, idx, node, 'write')
            a.st = a.st.write(g, idx, R(val) if a.sort == I else toreal(val))
            return
        raise OutsideSubset('store target')

    def st_If(self, s):
        c = self.ev(s.test)
        if is_conc(c):
            return self.run(s.body if c else s.orelse)
        c = self.tobool(c)
        d = self.decide(c)
        if d is True:
            return self.run(s.body)
        if d is False:
            return self.run(s.orelse)
        self.guards.append(c)
        try:
            self.run(s.body)
        finally:
            self.guards.pop()
        if s.orelse:
            self.guards.append(z3.Not(c))
            try:
                self.run(s.orelse)
            finally:
                self.guards.pop()

    def loop_ordinal(self, node):
        return self.loop_index.get(id(node))

    def range_args(self, it):
        if not (isinstance(it, ast.Call) and isinstance(it.func, ast.Name) and it.func.id == 'range'):
            raise OutsideSubset('for over non-range')
        a = [self.ev(x) for x in it.args]
        if len(a) == 1:
            a = [0, a[0], 1]
        elif len(a) == 2:
            a = [a[0], a[1], 1]
        return a

    def st_While(self, s):
        """while loop with an invariant supplied by the contract (policy ('inv', label, opts)): the scalars assigned in the
        body are havocked, the invariant and the negated test are assumed afterwards; initiation and preservation are
        recorded as obligations for the contract to discharge."""
        pol = self.loops.get(self.loop_ordinal(s))
        if pol is None or pol[0] != 'inv':
            raise OutsideSubset(f'while loop {self.loop_ordinal(s)} (line {s.lineno}) without invariant')
        label, opts = pol[1], pol[2]
        inv = opts['inv']
        if self.guards:
            g = self.guard()
        else:
            g = None
        hy = self.hyps()
        self.while_obligations.append((label + '/invariant_holds_at_entry', list(hy), z3.And(*inv(self.env))))
        scal, arrs = self.loop_modified(s)
        if arrs:
            raise OutsideSubset('while loop writes arrays')
        old = dict(self.env)
        for name in sorted(scal):
            if name in self.env and not self.arrlike(self.env[name]) and not isinstance(self.env[name], (tuple, Opaque)):
                self.env[name] = z3.Const(f'{self.fp}{name}_w{next(self.fresh)}', R(self.env[name]).sort())
        # generic iteration: invariant + test |- invariant after the body, variant decreases
        test = self.tobool(self.ev(s.test))
        pre_inv = inv(self.env)
        sub_env = dict(self.env)
        saved = (self.env, list(self.pc), list(self.guards))
        self.pc = hy + pre_inv + [test]
        self.guards = []
        self.env = dict(sub_env)
        self.run(s.body)
        post_inv = inv(self.env)
        var = opts.get('variant')
        goal = z3.And(*post_inv)
        if var is not None:
            goal = z3.And(goal, var(self.env) < var(sub_env), var(sub_env) >= 0)
        self.while_obligations.append((label + '/invariant_preserved_and_variant_decreases', list(self.pc), goal))
        self.env, self.pc, self.guards = saved
        # after the loop: invariant and negated test (under the current guard)
        facts = z3.And(*pre_inv, z3.Not(test))
        self.pc.append(facts if g is None else z3.Implies(g, facts))
        if g is not None:
            # when the guard is false the loop is not executed: variables keep their values
            for name in sorted(scal):
                if name in old and not self.arrlike(old[name]) and not isinstance(old[name], (tuple, Opaque)):
                    self.env[name] = self.ite(g, self.env[name], old[name])

    def st_For(self, s):
        if isinstance(s.iter, ast.Call) and isinstance(s.iter.func, ast.Name) and s.iter.func.id == 'enumerate' \
                and isinstance(s.target, ast.Tuple) and len(s.target.elts) == 2:
            # for i, v in enumerate(arr):  ==  for i in range(len(arr)): v = arr[i]
            arr_node = s.iter.args[0]
            new = ast.For(target=s.target.elts[0],
                          iter=ast.Call(func=ast.Name(id='range', ctx=ast.Load()),
                                        args=[ast.Call(func=ast.Name(id='len', ctx=ast.Load()), args=[arr_node], keywords=[])], keywords=[]),
                          body=[ast.Assign(targets=[s.target.elts[1]],
                                           value=ast.Subscript(value=arr_node, slice=s.target.elts[0], ctx=ast.Load()), lineno=s.lineno)] + s.body,
                          orelse=[], lineno=s.lineno)
            ast.fix_missing_locations(new)
            self.loop_index[id(new)] = self.loop_index.get(id(s))
            return self.st_For(new)
        if isinstance(s.iter, (ast.Tuple, ast.List)) and self.loops.get(self.loop_ordinal(s)) is None:
            # loop over a literal tuple / list: unrolled (complete, the length is in the source)
            for e in s.iter.elts:
                self.assign(s.target, self.ev(e), s)
                self.run_iteration(s.body)
            return
        lo, hi, step = self.range_args(s.iter)
        pol = self.loops.get(self.loop_ordinal(s))
        clo, chi, cst = as_int(lo), as_int(hi), as_int(step)
        if cst is None or cst == 0:
            raise OutsideSubset('symbolic range step')
        if pol is None and None not in (clo, chi):
            for i in range(clo, chi, cst):
                self.env[s.target.id] = i
                self.run_iteration(s.body)
            return
        if pol is None:
            # symbolic bounds but maybe decidable small count?  not attempted
            raise OutsideSubset(f'loop {self.loop_ordinal(s)} (line {s.lineno}) has symbolic bounds and no policy')
        kind = pol[0]
        if kind == 'stop':
            self.take_snapshot(pol[1])
            raise StopExec(pol[1])
        if kind == 'skip':
            pol[1](self, s)
            return
        if kind == 'inv':
            return self.for_with_invariant(s, pol[1], pol[2], lo, hi, cst)
        if kind in ('sym', 'gen', 'symseq'):
            label = pol[1]
            opts = pol[2] if len(pol) > 2 and isinstance(pol[2], dict) else {}
            if self.guards:
                raise OutsideSubset('symbolic loop under a guard')
            if kind == 'symseq':
                vars_ = list(opts['vars'])
            else:
                vars_ = [opts.get('var') if opts.get('var') is not None else z3.Int(f'{self.fp}{s.target.id}')]
            self.take_snapshot(label + ':pre')
            for n_it, var in enumerate(vars_):
                var = R(var)
                if cst > 0:
                    rng = [R(lo) <= var, var < R(hi)]
                    if cst != 1:
                        rng.append((var - R(lo)) % cst == 0)
                else:
                    rng = [R(hi) < var, var <= R(lo)]
                    if cst != -1:
                        rng.append((R(lo) - var) % (-cst) == 0)
                self.pc.extend(rng)
                if kind in ('gen', 'symseq'):
                    self.havoc_loop_state(s, opts, n_it)
                self.env[s.target.id] = var
                self.take_snapshot(label + ':entry' + (str(n_it) if kind == 'symseq' else ''))
                self.run_iteration(s.body)
                self.take_snapshot(label + (str(n_it) if kind == 'symseq' else ''))
            self.take_snapshot(label)
            if opts.get('stop'):
                raise StopExec(label)
            if kind == 'symseq':
                return          # contract states (and separately proves) why the sequence is representative
            if opts.get('map'):
                return self.summarise_map_loop(s, label, vars_[0], rng)
            # leave the loop: havoc what the body wrote
            self.havoc_after_loop(s, label)
            return
        raise OutsideSubset(f'unknown loop policy {kind}')

    def restore_snapshot(self, snap):
        self.env = dict(snap['env'])
        for a in self.arrays:
            if a.uid in snap['arr']:
                a.st = snap['arr'][a.uid]
        for k, vals in snap['loc'].items():
            if isinstance(self.env.get(k), LocalArr):
                self.env[k].vals = list(vals)
        self.pc = list(snap['pc'])
        self.guards = list(snap['guards'])

    def for_with_invariant(self, s, label, opts, lo, hi, step):
        """Invariant rule for `for v in range(lo, hi, +-1)` (DESIGN.md 2.4, rule 3).  The contract supplies
          opts['install'](ex, v): put the executor into *the* state described by the invariant at loop head with loop
                                  variable v (functional invariant: arrays get the invariant's read function, the scalars the
                                  loop modifies get the invariant's terms or fresh symbols); may append facts to ex.pc
          opts['claims'](ex, v) : [(name, goal)] -- the current state satisfies the invariant for loop variable v
        Obligations recorded in self.inv_obligations: initiation (claims at v = lo in the state before the loop),
        preservation (install at a fresh v in range, run the real body, claims at v + step).  After the loop the state is
        the invariant at the exit value (max(lo, hi) for step 1, min(lo, hi) for step -1).  Nested loops use their own
        policies while the body is run."""
        if step not in (1, -1):
            raise OutsideSubset('invariant rule: range step must be +-1')
        if self.guards:
            raise OutsideSubset('invariant loop under a guard')
        if not isinstance(s.target, ast.Name):
            raise OutsideSubset('invariant rule: loop target must be a name')
        lo, hi = R(lo), R(hi)
        for name, goal in opts['claims'](self, lo):
            self.inv_obligations.append((f'{label}/initiation/{name}', list(self.hyps()), goal))
        snap_label = f'{label}:inv-pre'
        self.take_snapshot(snap_label)
        saved = self.snap[snap_label]
        v = z3.Int(f'{self.fp}{s.target.id}_{label}')
        self.pc.extend([lo <= v, v < hi] if step == 1 else [hi < v, v <= lo])
        opts['install'](self, v)
        self.env[s.target.id] = v
        self.take_snapshot(label + ':entry')
        self.run_iteration(s.body)
        self.take_snapshot(label)
        for name, goal in opts['claims'](self, v + step):
            self.inv_obligations.append((f'{label}/preservation/{name}', list(self.hyps()), goal))
        self.restore_snapshot(saved)
        vexit = z3.If(hi >= lo, hi, lo) if step == 1 else z3.If(hi <= lo, hi, lo)
        opts['install'](self, z3.simplify(vexit))
        self.env[s.target.id] = z3.Int(f'{self.fp}{s.target.id}_{label}_after')

    def summarise_map_loop(self, s, label, var, rng):
        """independent-iteration loop over 1-D arrays (rule 1): every iteration writes only cell [var] of each
        written array and reads written arrays only at that cell; then after the loop
        a[q] = (value written by iteration q) for q in the range, untouched elsewhere."""
        pre = self.snap[label + ':pre']
        rngc = z3.And(*rng)
        for a in self.arrays:
            st0 = pre['arr'].get(a.uid)
            if st0 is None or a.st is st0:
                continue
            new = a.st.writes[len(st0.writes):]
            if a.ndim != 1 or a.st.base is not st0.base or a.st.writes[:len(st0.writes)] != st0.writes:
                raise OutsideSubset(f'map-loop summary: unsupported update of {a.name}')
            for g, widx, wval in new:
                if widx == 'region' or not (len(widx) == 1 and z3.simplify(widx[0] - var).eq(z3.IntVal(0))):
                    raise OutsideSubset(f'map-loop summary: {a.name} is not written at [loop variable]')
            # reads of a inside the written values must be at the own cell: checked on the recorded reads
            for b in self.bounds[pre['nb']:]:
                if b['arr'] == a.name and b['kind'] == 'read':
                    if not z3.simplify(b['idx'][0] - var).eq(z3.IntVal(0)):
                        raise OutsideSubset(f'map-loop summary: {a.name} read at another cell inside the loop')
            st = st0
            for g, widx, wval in new:
                def layer(idx, g=g, wval=wval):
                    q = idx[0]
                    cond = z3.substitute(rngc, (var, q))
                    if g is not None:
                        cond = z3.And(cond, z3.substitute(g, (var, q)))
                    return cond, z3.substitute(wval, (var, q))
                st = st.write_region(None, layer)
            a.st = st
        # scalars assigned in the body are dead after the loop (fresh)
        for k, v in list(self.env.items()):
            if k in pre['env'] and pre['env'][k] is not v and not self.arrlike(v) and not isinstance(v, (tuple, Opaque)) \
                    and z3.is_expr(R(v)):
                self.env[k] = z3.Const(f'{self.fp}{k}_m{next(self.fresh)}', R(v).sort())

    def loop_modified(self, s):
        """names syntactically assigned, stored into, or passed to a call inside the loop body"""
        scal, arrs = set(), set()
        for n in ast.walk(ast.Module(body=s.body, type_ignores=[])):
            if isinstance(n, (ast.Assign, ast.AugAssign)):
                tg = n.targets if isinstance(n, ast.Assign) else [n.target]
                for t in tg:
                    for e in ([t] if not isinstance(t, ast.Tuple) else t.elts):
                        if isinstance(e, ast.Name):
                            scal.add(e.id)
                        elif isinstance(e, ast.Subscript) and isinstance(e.value, ast.Name):
                            arrs.add(e.value.id)
            elif isinstance(n, ast.For) and isinstance(n.target, ast.Name):
                scal.add(n.target.id)
            elif isinstance(n, ast.Call):
                for a in n.args:
                    if isinstance(a, ast.Name):
                        arrs.add(a.id)
        return scal, arrs

    def havoc_loop_state(self, s, opts, n_it=0):
        """generic iteration: forget everything the loop may have changed in earlier iterations,
        except what the contract's invariant (opts) says about it"""
        scal, arrs = self.loop_modified(s)
        keep = set(opts.get('keep', ()))
        for name in sorted(arrs):
            v = self.env.get(name)
            if name in keep or v is None:
                continue
            custom = opts.get('havoc_fn', {}).get(name)
            if isinstance(v, ArrObj):
                if custom is not None:
                    v.st = ArrState(custom(self, v, n_it))
                else:
                    f = z3.Function(f'{v.name}_g{next(self.fresh)}', *([I] * v.ndim), getattr(v, 'sort', RS))
                    v.st = ArrState(f)
            elif isinstance(v, LocalArr):
                if custom is not None:
                    v.vals = list(custom(self, v, n_it))
                else:
                    k = next(self.fresh)
                    v.vals = [z3.Real(f'{self.fp}{name}_g{k}_{q}') for q in range(len(v.vals))]
        for name in sorted(scal):
            if name not in self.env or name in keep or name == s.target.id:
                continue
            v = self.env[name]
            if self.arrlike(v) or isinstance(v, (tuple, Opaque)) or v is None or isinstance(v, str):
                continue
            custom = opts.get('scalars', {}).get(name)
            if custom is not None:
                val, cons = custom(self, n_it)
                self.env[name] = val
                self.pc.extend(cons)
                continue
            srt = R(v).sort()
            self.env[name] = z3.Const(f'{self.fp}{name}_g{next(self.fresh)}', srt)

    def havoc_after_loop(self, s, label):
        entry = self.snap[label + ':pre']
        for a in self.arrays:
            st_entry = entry['arr'].get(a.uid)
            if st_entry is not None and a.st is not st_entry:
                f = z3.Function(f'{a.name}_h{next(self.fresh)}', *([I] * a.ndim), getattr(a, 'sort', RS))
                a.st = ArrState(f)
        for k, v in list(self.env.items()):
            if k in entry['env'] and entry['env'][k] is not v and not self.arrlike(v):
                if z3.is_expr(R(v)) if not isinstance(v, (tuple, Opaque)) else False:
                    srt = R(v).sort()
                    self.env[k] = z3.Const(f'{self.fp}{k}_h{next(self.fresh)}', srt)
        # range facts of the loop variable stay in pc: harmless (fresh symbol)

    def take_snapshot(self, label):
        self.snap[label] = dict(env=dict(self.env), arr={a.uid: a.st for a in self.arrays},
                                loc={k: list(v.vals) for k, v in self.env.items() if isinstance(v, LocalArr)},
                                pc=list(self.pc), guards=list(self.guards), nb=len(self.bounds))

    # ------------------------------------------------------------ entry
    def run_function(self, fnode, args):
        for i, l in enumerate(intake.loops_preorder(fnode)):
            self.loop_index[id(l)] = i
        params = [a.arg for a in fnode.args.args]
        self.env = dict(zip(params, args))
        for v in args:
            if isinstance(v, ArrObj) and v not in self.arrays:
                self.arrays.append(v)
            if isinstance(v, tuple):
                for w in v:
                    if isinstance(w, ArrObj) and w not in self.arrays:
                        self.arrays.append(w)
        try:
            self.run(intake.strip_doc(fnode.body))
        except _Return:
            pass
        except StopExec:
            pass
        return self.retval


class _Return(Exception):
    pass


def _inline(self, fnode, args, callnode=None, outer_env=None):
    sub = Ex(self.mod, pc=self.pc, funcs=self.funcs, loops={}, fresh_prefix=self.fp)
    sub.guards = list(self.guards)
    sub.bounds = self.bounds
    sub.rcp_terms = self.rcp_terms
    sub.arrays = self.arrays
    sub.region_writes = self.region_writes
    sub.fresh = self.fresh
    sub.depth = self.depth + 1
    params = [a.arg for a in fnode.args.args]
    if len(params) != len(args):
        raise OutsideSubset(f'arity mismatch calling {fnode.name}')
    sub.env = dict(outer_env or {})
    sub.env.update(zip(params, args))
    sub.first_index_facts = self.first_index_facts
    sub.while_obligations = self.while_obligations
    try:
        sub.run(intake.strip_doc(fnode.body))
    except _Return:
        pass
    self.pc[:] = sub.pc           # facts assumed inside the callee (loop ranges, first-index contract) persist
    return sub.retval


Ex.inline = _inline
