"""Back ends: how an obligation is discharged (DESIGN.md 4.1).

prove_lia(hyps, goal)       index / control obligations (QF_LIA, QF_UFLIA, LRA)
prove_eq(hyps, lhs, rhs)    algebraic identities: value-level ite resolution under the
                            hypotheses, abstraction of array reads to atoms, polynomial
                            normal form; fall back to a QF_NRA query with side axioms.
Results: dict(status='proved'|'refuted'|'unknown', backend=..., time=..., model=...).
"""
import os
import subprocess
import time
import z3

from .sx import RCP

TIMEOUT_MS = 60000


def _res(status, backend, t0, **kw):
    d = dict(status=status, backend=backend, time=round(time.time() - t0, 4))
    d.update(kw)
    return d


def model_dict(m, limit=60):
    out = {}
    for d in m.decls()[:limit]:
        try:
            if d.arity() == 0:
                out[d.name()] = str(m[d])
        except Exception:
            pass
    return out


def check_sat(hyps, timeout=10000):
    s = z3.Solver()
    s.set('timeout', timeout)
    for h in hyps:
        s.add(h)
    return s.check()


CVC5 = '/usr/bin/cvc5'


def cvc5_crosscheck(solver, tlimit_ms=10000):
    """thorough tier: the query z3 found unsat is handed to cvc5 as SMT-LIB text.  Returns 'unsat' | 'sat' | 'noverdict'."""
    if os.environ.get('VERIF_TIER') != 'thorough' or os.environ.get('VERIF_CVC5', '1') == '0' or not os.path.exists(CVC5):
        return None
    try:
        text = '(set-logic ALL)\n' + solver.to_smt2()
        p = subprocess.run([CVC5, '--lang=smt2', f'--tlimit={tlimit_ms}', '-'], input=text, capture_output=True, text=True,
                           timeout=tlimit_ms / 1000 + 5)
        out = p.stdout.strip().splitlines()
        first = out[0].strip() if out else ''
        return first if first in ('unsat', 'sat') else 'noverdict'
    except Exception:
        return 'noverdict'


def _with_crosscheck(res, solver):
    cc = cvc5_crosscheck(solver)
    if cc is None:
        return res
    res['cvc5'] = cc
    if cc == 'sat':
        # the two back ends disagree: the obligation is undecided, never a violation and never counted as proved
        res['status'] = 'unknown'
        res['reason'] = 'z3 says unsat, cvc5 says sat: back ends disagree'
    return res


def prove_lia(hyps, goal, timeout=TIMEOUT_MS, want_model=True):
    t0 = time.time()
    s = z3.Solver()
    s.set('timeout', timeout)
    for h in hyps:
        s.add(h)
    s.add(z3.Not(goal))
    r = s.check()
    if r == z3.unsat:
        return _with_crosscheck(_res('proved', 'z3', t0), s)
    if r == z3.sat:
        return _res('refuted', 'z3', t0, model=model_dict(s.model()) if want_model else {})
    return _res('unknown', 'z3', t0, reason=s.reason_unknown())


class Resolver:
    """Replace If(c,a,b) by a or b when the hypotheses entail it (on the condition or,
    failing that, on the *value*)."""

    def __init__(self, hyps):
        self.s = z3.Solver()
        self.s.set('timeout', 10000)
        for h in hyps:
            self.s.add(h)
        self.cache = {}
        self.memo = {}
        self.queries = 0

    def entails(self, c):
        k = c.get_id()
        if k in self.cache:
            return self.cache[k][1]
        # NB: the expression is stored with the verdict so that its AST id cannot be recycled
        cs = z3.simplify(c)
        if z3.is_true(cs):
            self.cache[k] = (c, True)
            return True
        if z3.is_false(cs):
            self.cache[k] = (c, False)
            return False
        self.queries += 1
        self.s.push()
        self.s.add(z3.Not(c))
        r = self.s.check()
        self.s.pop()
        self.cache[k] = (c, r == z3.unsat)
        return self.cache[k][1]

    def walk(self, e):
        k = e.get_id()
        if k in self.memo:
            return self.memo[k][1]
        if z3.is_app(e) and e.decl().kind() == z3.Z3_OP_ITE:
            c = self.walk(e.arg(0))
            if self.entails(c):
                r = self.walk(e.arg(1))
            elif self.entails(z3.Not(c)):
                r = self.walk(e.arg(2))
            else:
                a = self.walk(e.arg(1))
                b = self.walk(e.arg(2))
                if a.eq(b):
                    r = a
                elif not z3.is_bool(a) and self.entails(z3.If(c, a, b) == b):
                    r = b
                elif not z3.is_bool(a) and self.entails(z3.If(c, a, b) == a):
                    r = a
                else:
                    r = z3.If(c, a, b)
        elif z3.is_app(e) and e.num_args() > 0:
            args = [self.walk(a) for a in e.children()]
            r = e.decl()(*args)
        else:
            r = e
        self.memo[k] = (e, r)
        return r


def abstract_atoms(exprs, hyps=None):
    """Every uninterpreted-function application with arguments (array read, rcp(..)) becomes
    a fresh real constant keyed on its simplified text.  Returns new exprs, table
    name -> original application."""
    table = {}
    names = {}
    memo = {}

    def walk(e):
        k = e.get_id()
        if k in memo:
            return memo[k][1]
        if z3.is_app(e) and e.decl().kind() == z3.Z3_OP_UNINTERPRETED and e.num_args() > 0 \
                and z3.is_real(e):
            inner = e.decl()(*[walk(a) if z3.is_real(a) else z3.simplify(a) for a in e.children()]) \
                if any(z3.is_real(a) for a in e.children()) else e
            key = str(z3.simplify(inner))
            if key not in names:
                nm = z3.Real('a%d' % len(names))
                names[key] = nm
                table[str(nm)] = (inner, e)
            r = names[key]
        elif z3.is_app(e) and e.num_args() > 0:
            r = e.decl()(*[walk(a) for a in e.children()])
        else:
            r = e
        memo[k] = (e, r)
        return r
    return [walk(e) for e in exprs], table, walk


def rcp_axioms(table, walk):
    """b != 0 => b * rcp(b) == 1 for every abstracted rcp atom."""
    ax = []
    for nm, (inner, orig) in table.items():
        if inner.decl().eq(RCP):
            b = inner.arg(0)
            ax.append(z3.Implies(b != 0, b * z3.Real(nm) == 1))
    return ax


def is_zero(e):
    return z3.is_rational_value(e) and e.as_fraction() == 0


def prove_eq(hyps, lhs, rhs, side=(), timeout=TIMEOUT_MS, int_hyps=None):
    """hyps: LIA facts about indices/shapes (used for ite resolution).
    side: real-valued side hypotheses (PEC zeros etc.) as z3 formulas over array reads;
    they are abstracted together with lhs/rhs and given to the NRA fall-back.
    """
    t0 = time.time()
    res = Resolver(hyps)
    l = res.walk(lhs)
    r = res.walk(rhs)
    sd = [res.walk(x) for x in side]
    out, table, walk = abstract_atoms([l, r] + sd)
    l2, r2, sd2 = out[0], out[1], out[2:]
    d = z3.simplify(l2 - r2, som=True)
    if is_zero(d):
        return _res('proved', 'normal-form', t0, atoms=len(table), ite_queries=res.queries)
    # substitute side equalities of the form atom == 0 before giving up on normal form
    zero_atoms = []
    for x in sd2:
        if z3.is_eq(x) and z3.is_const(x.arg(0)) and is_zero(z3.simplify(x.arg(1))):
            zero_atoms.append((x.arg(0), z3.RealVal(0)))
    if zero_atoms:
        d0 = z3.simplify(z3.substitute(d, *zero_atoms), som=True)
        if is_zero(d0):
            return _res('proved', 'normal-form+side', t0, atoms=len(table), ite_queries=res.queries)
    s = z3.Solver()
    s.set('timeout', timeout)
    for x in sd2:
        s.add(x)
    for a in rcp_axioms(table, walk):
        s.add(walk(res.walk(a)) if False else a)
    s.add(d != 0)
    chk = s.check()
    if chk == z3.unsat:
        return _with_crosscheck(_res('proved', 'z3-nra', t0, atoms=len(table), ite_queries=res.queries), s)
    if chk == z3.sat:
        m = s.model()
        md = model_dict(m)
        md['_atoms'] = {k: str(v[0]) for k, v in list(table.items())[:80]}
        # indices: a model of the integer hypotheses
        si = z3.Solver()
        si.set('timeout', 10000)
        for h in hyps:
            si.add(h)
        if si.check() == z3.sat:
            md['_index_model'] = model_dict(si.model())
        return _res('refuted', 'z3-nra', t0, model=md, atoms=len(table), residual=str(d)[:400])
    return _res('unknown', 'z3-nra', t0, reason=s.reason_unknown(), residual=str(d)[:400])


def index_model(hyps, prefer=()):
    """A model of the integer hypotheses, preferring the soft constraints in `prefer`."""
    o = z3.Optimize()
    o.set('timeout', 10000)
    for h in hyps:
        o.add(h)
    for p in prefer:
        o.add_soft(p)
    if o.check() == z3.sat:
        return o.model()
    return None
