"""Dependency contracts ("numpy prelude", DESIGN.md 2.5) for the control executor.

Every entry is an ASSUMED contract about a builtin / numpy / itertools function: what it
returns on the abstract values of cx and what it may mutate.  Entries used by a run are
reported in the evidence file's trusted base.  Library functions without an entry yield an
opaque value and are assumed not to mutate their arguments (A-LIB).
"""
import z3

from .cx import (DArr, Vec, Opaque, Obj, NDArr, Store, ExcVal, Closure, LibFn, ModRef, ClassRef, Unsupported, _Raise,
                 is_sym, R, num_pair)

TABLE = {}
USED = set()
# physical constants: positive real symbols (their numerical values are irrelevant for the contracts)
CONSTS = {'sp.constants.mu_0': z3.Real('MU_0'), 'sp.constants.epsilon_0': z3.Real('EPSILON_0')}


def reg(*names):
    def deco(f):
        for n in names:
            TABLE[n] = f
        return f
    return deco


def used(name):
    USED.add(name)


def line(node):
    return getattr(node, 'lineno', 0)


@reg('builtins.len')
def _len(it, f, args, kw, node):
    v = args[0]
    if isinstance(v, (list, tuple, dict, str, set)):
        return len(v)
    if isinstance(v, Obj) and '__len__' in v.fields:
        return v.fields['__len__']
    return Opaque('len')


@reg('builtins.range')
def _range(it, f, args, kw, node):
    if all(isinstance(a, int) for a in args):
        return range(*args)
    vals = []
    if any(isinstance(a, (Opaque, NDArr)) for a in args):
        from .cx import _Stop
        raise _Stop('loop over a range with opaque bounds')
    for a in args:
        if is_sym(a):
            s = z3.simplify(a)
            if not z3.is_int_value(s):
                raise Unsupported('range with symbolic bound')
            a = s.as_long()
        vals.append(a)
    return range(*vals)


@reg('builtins.min', 'builtins.max')
def _minmax(it, f, args, kw, node):
    xs = list(args[0]) if len(args) == 1 and isinstance(args[0], (list, tuple)) else list(args)
    if any(isinstance(x, (Opaque, NDArr)) for x in xs):
        return Opaque(f.name)
    if all(not is_sym(x) for x in xs):
        return (min if f.name.endswith('min') else max)(xs)
    r = xs[0]
    for x in xs[1:]:
        a, b = num_pair(r, x)
        r = z3.If(a <= b, a, b) if f.name.endswith('min') else z3.If(a >= b, a, b)
    return r


@reg('builtins.abs')
def _abs(it, f, args, kw, node):
    v = args[0]
    if isinstance(v, (Opaque,)):
        return Opaque('abs')
    if isinstance(v, NDArr):
        return NDArr(Store(f'fresh@{line(node)}', None))
    if is_sym(v):
        return z3.If(v >= 0, v, -v)
    return abs(v)


@reg('builtins.int')
def _int(it, f, args, kw, node):
    v = args[0]
    if isinstance(v, (int, float, str, bool)):
        try:
            return int(v)
        except ValueError:
            raise _Raise(ExcVal('ValueError'))
    if is_sym(v):
        if z3.is_int(v):
            return v
        if z3.is_bool(v):
            return z3.If(v, 1, 0)
        return z3.ToInt(v)          # floor; callers in scope only use it on non-negative values
    return Opaque('int')


@reg('builtins.float', 'builtins.complex')
def _float(it, f, args, kw, node):
    v = args[0] if args else 0.0
    if isinstance(v, (int, float, bool)):
        return float(v)
    if isinstance(v, str):
        try:
            return float(v)
        except ValueError:
            raise _Raise(ExcVal('ValueError'))
    if is_sym(v):
        return z3.ToReal(v) if z3.is_int(v) else v
    return Opaque('float')


@reg('builtins.bool')
def _bool(it, f, args, kw, node):
    return it.truth(args[0]) if args else False


@reg('builtins.str', 'builtins.repr')
def _str(it, f, args, kw, node):
    v = args[0] if args else ''
    if isinstance(v, (int, float, str, bool)) or v is None:
        return str(v)
    if hasattr(v, 'cx_str'):         # extension value with a text form of its own (e.g. a path)
        return v.cx_str(it)
    return Opaque('str')


@reg('builtins.list', 'builtins.tuple', 'builtins.set', 'builtins.sorted', 'builtins.reversed')
def _list(it, f, args, kw, node):
    conv = {'list': list, 'tuple': tuple, 'set': set, 'sorted': sorted, 'reversed': lambda x: list(reversed(x))}[f.name.split('.')[-1]]
    if not args:
        return conv([])
    v = args[0]
    if isinstance(v, Opaque):
        return Opaque(f.name)
    return conv(it.iterate(v))


@reg('builtins.dict')
def _dict(it, f, args, kw, node):
    d = {}
    if args:
        a = args[0]
        if isinstance(a, dict):
            d.update(a)
        else:
            for k, v in it.iterate(a):
                d[k] = v
    d.update(kw)
    return d


@reg('builtins.zip')
def _zip(it, f, args, kw, node):
    return list(zip(*[it.iterate(a) for a in args]))


@reg('builtins.enumerate')
def _enumerate(it, f, args, kw, node):
    return list(enumerate(it.iterate(args[0])))


@reg('builtins.isinstance')
def _isinstance(it, f, args, kw, node):
    v, t = args
    ts = t if isinstance(t, tuple) else (t,)
    names = []
    for x in ts:
        if isinstance(x, ClassRef):
            names.append(x.name)
        elif isinstance(x, LibFn):
            names.append(x.name.split('.')[-1])
        elif isinstance(x, tuple) and len(x) == 3 and x[0] == 'repo':
            names.append(x[2])
        else:
            names.append(str(x))
    if isinstance(v, Obj):
        chain = [v.cls] + list(v.fields.get('__bases__', ()))
        return any(c in names for c in chain)
    pyt = dict(str=str, int=int, float=float, bool=bool, dict=dict, list=list, tuple=tuple, set=set)
    if isinstance(v, NDArr):
        return 'ndarray' in names
    if isinstance(v, Opaque):
        return it.ctx.branch(it.ctx.fresh_bool('isinstance'), 'isinstance')
    if is_sym(v):
        if z3.is_bool(v):
            return 'bool' in names or 'int' in names
        if z3.is_int(v):
            return 'int' in names or 'integer' in names
        return 'float' in names or 'floating' in names
    return any(n in pyt and isinstance(v, pyt[n]) for n in names) or (v is None and 'NoneType' in names)


@reg('builtins.getattr')
def _getattr(it, f, args, kw, node):
    o, name = args[0], args[1]
    if not isinstance(name, str):
        raise Unsupported('getattr with non-literal name')
    try:
        return it.getattr(o, name, node)
    except _Raise as r:
        if len(args) > 2 and r.exc.typ == 'AttributeError':
            return args[2]
        raise


@reg('object.__init__')
def _object_init(it, f, args, kw, node):
    return None


@reg('builtins.super')
def _super(it, f, args, kw, node):
    raise Unsupported('super() in a form the executor does not model')


@reg('builtins.setattr')
def _setattr(it, f, args, kw, node):
    o, name, v = args
    if not isinstance(name, str):
        raise Unsupported('setattr with non-literal name')
    it.setattr(o, name, v, node)


@reg('builtins.hasattr')
def _hasattr(it, f, args, kw, node):
    o, name = args
    if isinstance(o, (tuple, list, dict, str, int, float, set)) and not is_sym(o):
        return hasattr(o, name)
    if is_sym(o):
        return hasattr(0.0, name)
    if isinstance(o, Obj):
        return name in o.fields or it.find_method(o, name) is not None
    return it.ctx.branch(it.ctx.fresh_bool('hasattr'), 'hasattr')


@reg('builtins.delattr')
def _delattr(it, f, args, kw, node):
    o, name = args
    if isinstance(o, Obj):
        o.fields.pop(name, None)
        it.ctx.event('delattr', obj=o, attr=name)


@reg('builtins.print')
def _print(it, f, args, kw, node):
    return None


@reg('builtins.any', 'builtins.all')
def _anyall(it, f, args, kw, node):
    v = args[0]
    if isinstance(v, (Opaque, NDArr)):
        return it.ctx.fresh_bool(f.name.split('.')[-1])
    xs = it.iterate(v)
    is_any = f.name.endswith('any')
    for x in xs:
        t = it.truth(x)
        if is_any and t:
            return True
        if not is_any and not t:
            return False
    return not is_any


@reg('builtins.sum')
def _sum(it, f, args, kw, node):
    v = args[0]
    if isinstance(v, (Opaque, NDArr)):
        return Opaque('sum')
    tot = args[1] if len(args) > 1 else 0
    for x in it.iterate(v):
        tot = it.binop(__import__('ast').Add(), tot, x, node)
    return tot


@reg('builtins.next')
def _next(it, f, args, kw, node):
    o = args[0]
    if isinstance(o, Obj) and o.cls == 'cycle':
        seq = o.fields['seq']
        i = o.fields['pos']
        o.fields['pos'] = i + 1
        it.ctx.event('next', obj=o, index=i)
        if isinstance(seq, (list, tuple)):
            return seq[i % len(seq)]
        if 'range' in o.fields:      # contract-provided element range of an otherwise unknown sequence
            v = it.ctx.fresh_int('cycle_item')
            it.ctx.assume(z3.And(v >= o.fields['range'][0], v <= o.fields['range'][1]))
            return v
        return Opaque('cycle-item')
    return Opaque('next')


@reg('builtins.type')
def _type(it, f, args, kw, node):
    return Opaque('type')


@reg('builtins.round')
def _round(it, f, args, kw, node):
    return Opaque('round') if not isinstance(args[0], (int, float)) else round(*args)


@reg('builtins.map')
def _map(it, f, args, kw, node):
    fn = args[0]
    return [it.call(fn, list(xs), {}, node) for xs in zip(*[it.iterate(a) for a in args[1:]])]


@reg('builtins.callable')
def _callable(it, f, args, kw, node):
    return isinstance(args[0], (Closure, LibFn, ClassRef)) or (isinstance(args[0], tuple) and args[0][:1] == ('repo',))


@reg('itertools.cycle')
def _cycle(it, f, args, kw, node):
    used('itertools.cycle: next() returns the elements of the sequence cyclically, in order')
    seq = args[0]
    return Obj('cycle', dict(seq=list(seq) if isinstance(seq, (list, tuple)) else seq, pos=0))


@reg('itertools.product')
def _product(it, f, args, kw, node):
    import itertools
    return list(itertools.product(*[it.iterate(a) for a in args]))


# ------------------------------------------------------------------ dict / list / str methods
@reg('dict.get')
def _dget(it, f, args, kw, node):
    d = f.bound
    k = args[0]
    if is_sym(k) or isinstance(k, Opaque):
        raise Unsupported('symbolic dict key')
    return d.get(k, args[1] if len(args) > 1 else None)


@reg('dict.pop')
def _dpop(it, f, args, kw, node):
    d = f.bound
    k = args[0]
    if k in d:
        return d.pop(k)
    if len(args) > 1:
        return args[1]
    raise _Raise(ExcVal('KeyError', (k,)))


@reg('dict.keys')
def _dkeys(it, f, args, kw, node):
    return list(f.bound.keys())


@reg('dict.values')
def _dvalues(it, f, args, kw, node):
    return list(f.bound.values())


@reg('dict.items')
def _ditems(it, f, args, kw, node):
    return list(f.bound.items())


@reg('dict.update')
def _dupdate(it, f, args, kw, node):
    for a in args:
        f.bound.update(a)
    f.bound.update(kw)


@reg('dict.copy')
def _dcopy(it, f, args, kw, node):
    return dict(f.bound)


@reg('dict.setdefault')
def _dsetdefault(it, f, args, kw, node):
    return f.bound.setdefault(args[0], args[1] if len(args) > 1 else None)


@reg('list.append')
def _lappend(it, f, args, kw, node):
    f.bound.append(args[0])


@reg('list.extend')
def _lextend(it, f, args, kw, node):
    f.bound.extend(it.iterate(args[0]))


@reg('list.index')
def _lindex(it, f, args, kw, node):
    try:
        return f.bound.index(args[0])
    except ValueError:
        raise _Raise(ExcVal('ValueError'))


@reg('list.copy')
def _lcopy(it, f, args, kw, node):
    return list(f.bound)


@reg('str.startswith', 'str.endswith', 'str.lower', 'str.upper', 'str.split', 'str.strip', 'str.replace', 'str.join',
     'str.format', 'str.isdigit', 'str.rsplit', 'str.lstrip', 'str.rstrip', 'str.zfill', 'str.count', 'str.find')
def _strm(it, f, args, kw, node):
    m = f.name.split('.')[-1]
    if any(isinstance(a, Opaque) or is_sym(a) for a in args):
        return Opaque('str')
    if m == 'join':
        xs = it.iterate(args[0])
        if any(not isinstance(x, str) for x in xs):
            return Opaque('str')
        return f.bound.join(xs)
    try:
        return getattr(f.bound, m)(*args, **kw)
    except Exception:
        return Opaque('str')


# ------------------------------------------------------------------ numpy (abstract arrays)
def fresh_arr(node, val=None, origin=None):
    return NDArr(Store(origin or f'fresh@{line(node)}', val))


@reg('np.zeros', 'np.ones', 'np.empty', 'np.full', 'np.zeros_like', 'np.ones_like', 'np.empty_like',
     'numpy.zeros', 'numpy.ones')
def _npalloc(it, f, args, kw, node):
    used('np.zeros/ones/empty/full(_like): return a freshly allocated array')
    if f.name in ('np.zeros', 'np.ones') and args and isinstance(args[0], int) and 0 < args[0] <= 16:
        return Vec([0 if f.name == 'np.zeros' else 1] * args[0])
    val = {'zeros': z3.RealVal(0), 'ones': z3.RealVal(1)}.get(f.name.split('.')[-1].replace('_like', ''))
    return fresh_arr(node, val)


@reg('np.array', 'np.asarray', 'np.atleast_1d', 'np.asanyarray', 'np.ascontiguousarray', 'np.asfortranarray')
def _nparray(it, f, args, kw, node):
    v = args[0]
    if f.name != 'np.array' or kw.get('copy') is False:
        if isinstance(v, NDArr):
            used(f'{f.name}: returns its argument itself when it already is an ndarray (no copy)')
            return v
    if isinstance(v, NDArr):
        used('np.array(ndarray): returns a copy')
        return fresh_arr(node, v.store.val)
    if isinstance(v, (list, tuple)) and all(isinstance(x, (int, float, bool)) or is_sym(x) for x in v) and len(v) <= 16:
        return Vec(v)
    return fresh_arr(node, R(v) if isinstance(v, (int, float)) and not isinstance(v, bool) else (v if is_sym(v) and not z3.is_bool(v) else None))


@reg('np.copy', 'ndarray.copy', 'ndarray.astype', 'copy.deepcopy', 'copy.copy', 'deepcopy')
def _npcopy(it, f, args, kw, node):
    v = f.bound if f.bound is not None else args[0]
    if isinstance(v, NDArr):
        if f.name.endswith('.astype') and kw.get('copy') is False:
            # astype(dtype, copy=False) returns the array ITSELF when the dtype already matches: both outcomes are explored
            used('ndarray.astype(dtype, copy=False): the array itself if the dtype matches, else a freshly allocated array with equal contents')
            if it.ctx.branch(it.ctx.fresh_bool('astype_dtype_matches'), 'astype(copy=False)'):
                return v
            return fresh_arr(node, v.store.val)
        used('ndarray.copy / np.copy / astype / deepcopy(ndarray): return a freshly allocated array with equal contents')
        return fresh_arr(node, v.store.val)
    if isinstance(v, (int, float, str, bool)) or v is None or is_sym(v):
        return v
    if isinstance(v, (list, tuple)):
        return type(v)(_npcopy(it, LibFn(f.name), [x], {}, node) for x in v)
    if isinstance(v, dict):
        return {k: _npcopy(it, LibFn(f.name), [x], {}, node) for k, x in v.items()}
    if isinstance(v, Obj) and f.name.endswith('deepcopy'):
        memo = {}

        def dc(x):
            if isinstance(x, Obj):
                if x.uid in memo:
                    return memo[x.uid]
                o = Obj(x.cls, mod=x.mod)
                memo[x.uid] = o
                o.fields = {k: dc(w) for k, w in x.fields.items()}
                return o
            if isinstance(x, NDArr):
                return NDArr(Store(f'fresh@{line(node)}', x.store.val))
            if isinstance(x, dict):
                return {k: dc(w) for k, w in x.items()}
            if isinstance(x, (list, tuple)):
                return type(x)(dc(w) for w in x)
            return x
        used('copy.deepcopy: recursive copy, no storage shared with the original')
        return dc(v)
    return Opaque('copy')


@reg('ndarray.reshape', 'ndarray.ravel', 'ndarray.view', 'ndarray.squeeze', 'np.reshape', 'np.ravel', 'np.squeeze',
     'ndarray.transpose', 'np.transpose', 'np.real', 'np.imag', 'np.atleast_2d')
def _npview(it, f, args, kw, node):
    v = f.bound if f.bound is not None else args[0]
    if isinstance(v, NDArr):
        used('reshape/ravel/squeeze/real/imag/transpose: may return a VIEW sharing storage with the argument (treated as always sharing)')
        return NDArr(v.store, view=f.name.split('.')[-1])
    return Opaque(f.name)


@reg('ndarray.flatten')
def _npflatten(it, f, args, kw, node):
    return fresh_arr(node, f.bound.store.val)


@reg('np.arange')
def _nparange(it, f, args, kw, node):
    if all(isinstance(a, int) for a in args):
        return list(range(*args))
    return Opaque('arange')


@reg('np.any', 'np.all', 'ndarray.any', 'ndarray.all')
def _npanyall(it, f, args, kw, node):
    v = f.bound if f.bound is not None else args[0]
    if isinstance(v, (bool,)):
        return v
    if is_sym(v) and z3.is_bool(v):
        return v
    if isinstance(v, NDArr) and v.pred is not None:
        # np.all / np.any of an element-wise IEEE predicate: named proposition (axioms: pred_axioms)
        q = 'ALL' if f.name.endswith('all') else 'ANY'
        return z3.Bool(f'{q}{v.pred!r}')
    if isinstance(v, Vec):
        bs = [R(x) if isinstance(x, bool) else x for x in v]
        if all(z3.is_bool(b) for b in bs):
            return z3.simplify(z3.Or(*bs) if f.name.endswith('any') else z3.And(*bs))
    if isinstance(v, (list, tuple)):
        return _anyall(it, LibFn('builtins.' + f.name.split('.')[-1]), [v], {}, node)
    return it.ctx.fresh_bool(f.name.replace('.', '_'))


@reg('np.isfinite', 'np.isnan', 'np.isinf')
def _npisfinite(it, f, args, kw, node):
    v = args[0]
    if isinstance(v, NDArr):
        return NDArr(Store(f'fresh@{line(node)}', None), dtype='bool',
                     pred=(f.name.split('.')[-1], v.store.uid, v.store.version))
    if isinstance(v, (int, float)):
        import math
        return {'isfinite': math.isfinite, 'isnan': math.isnan, 'isinf': math.isinf}[f.name.split('.')[-1]](v)
    if is_sym(v):
        # mathematical reals are finite (A-REAL)
        return f.name.endswith('isfinite')
    return it.ctx.fresh_bool(f.name.replace('.', '_'))


@reg('np.sqrt', 'np.exp', 'np.log', 'np.log10', 'np.abs', 'np.conj', 'np.sign', 'np.cos', 'np.sin', 'np.deg2rad',
     'np.rad2deg', 'np.angle', 'np.diff', 'np.cumsum', 'np.sum', 'np.linalg.norm', 'np.prod', 'np.nan_to_num',
     'np.squeeze', 'np.unique', 'np.r_', 'np.where', 'np.argmin', 'np.argmax', 'np.isclose', 'np.allclose',
     'np.floor', 'np.ceil', 'np.round', 'np.clip', 'np.outer', 'np.linspace', 'np.logspace', 'np.tile', 'np.repeat',
     'np.concatenate', 'np.hstack', 'np.vstack', 'np.stack', 'np.maximum', 'np.minimum', 'np.power',
     'ndarray.sum', 'ndarray.min', 'ndarray.max', 'ndarray.mean', 'ndarray.conj', 'ndarray.tolist', 'ndarray.item')
def _nppure(it, f, args, kw, node):
    """pure functions: fresh result, no argument is mutated"""
    used('numpy ufuncs / reductions (sqrt, exp, log, abs, conj, sum, diff, ...): pure, result freshly allocated')
    vs = ([f.bound] if f.bound is not None else []) + list(args)
    if 'out' in kw:
        raise Unsupported('numpy out= argument')
    if any(isinstance(v, NDArr) for v in vs) and f.name.split('.')[-1] not in (
            'sum', 'norm', 'prod', 'argmin', 'argmax', 'allclose', 'min', 'max', 'mean', 'item', 'tolist'):
        return fresh_arr(node, None)
    return Opaque(f.name + '()')


@reg('np.int64', 'np.float64', 'np.complex128', 'np.bool_', 'np.int32')
def _npscalar(it, f, args, kw, node):
    return args[0] if args else 0


def pred_props(uid, ver=0):
    """the named propositions about the elements of storage uid@ver and the IEEE-754 facts relating them.
    (x > 0, x <= 0, ... are all false for NaN; isfinite excludes NaN and +-inf)"""
    B = lambda q, p: z3.Bool(f'{q}{p!r}')
    c = lambda op, k=0.0: ('cmp', op, k, uid, ver)
    P = dict(all_pos=B('ALL', c('Gt')), any_nonpos=B('ANY', c('LtE')), any_neg=B('ANY', c('Lt')), all_nonneg=B('ALL', c('GtE')),
             all_finite=B('ALL', ('isfinite', uid, ver)), any_inf=B('ANY', ('isinf', uid, ver)), any_nan=B('ANY', ('isnan', uid, ver)),
             any_notfinite=B('ANY', ('isfinite', uid, ver)))
    ax = [z3.Implies(P['all_pos'], z3.Not(P['any_nonpos'])),          # not conversely: NaN
          z3.Implies(P['all_pos'], z3.And(z3.Not(P['any_neg']), z3.Not(P['any_nan']))),
          z3.Implies(P['all_finite'], z3.And(z3.Not(P['any_inf']), z3.Not(P['any_nan']))),
          z3.Implies(z3.And(z3.Not(P['any_inf']), z3.Not(P['any_nan'])), P['all_finite']),
          z3.Implies(z3.And(z3.Not(P['any_nonpos']), z3.Not(P['any_nan'])), P['all_pos'])]
    return P, ax


PW = {'sqrt': z3.Function('SQRT', z3.RealSort(), z3.RealSort()), 'abs': z3.Function('ABS', z3.RealSort(), z3.RealSort()),
      'conj': z3.Function('CONJ', z3.RealSort(), z3.RealSort())}


@reg('np.sqrt', 'np.abs', 'np.conj', 'ndarray.conj', 'dataarray.conj', 'builtins.abs', 'np.absolute')
def _pw(it, f, args, kw, node):
    """element-wise sqrt/abs/conj with a point-wise symbolic value (uninterpreted, congruence only)"""
    used('np.sqrt / np.abs / np.conj: pure element-wise functions (treated as uninterpreted functions of the element)')
    v = f.bound if f.bound is not None else args[0]
    fn = PW[[k for k in PW if k in f.name][0]] if any(k in f.name for k in PW) else PW['abs']
    if isinstance(v, NDArr):
        val = fn(v.store.val) if v.store.val is not None and is_sym(R(v.store.val)) else None
        cls_ = DArr if isinstance(v, DArr) else NDArr
        return cls_(Store(f'fresh@{line(node)}', val))
    if isinstance(v, (int, float)) and not isinstance(v, bool):
        import math
        return {'sqrt': math.sqrt, 'abs': abs, 'conj': lambda x: x}[[k for k in PW if k in f.name][0] if any(k in f.name for k in PW) else 'abs'](v)
    if is_sym(v):
        if 'abs' in f.name:
            return z3.If(v >= 0, v, -v)        # exact on real scalars
        v2 = z3.ToReal(v) if z3.is_int(v) else v
        return fn(v2)
    return Opaque(f.name)


@reg('dataarray.copy')
def _dacopy(it, f, args, kw, node):
    used('xarray.DataArray.copy(data=X): the new DataArray holds X itself as its data (no copy of X); without data= a deep copy')
    v = f.bound
    if 'data' in kw:
        d = kw['data']
        if isinstance(d, NDArr):
            return DArr(d.store, view=d.view, dtype=d.dtype, attrs=dict(v.attrs))
        return DArr(Store(f'fresh@{line(node)}', R(d) if isinstance(d, (int, float)) else None), attrs=dict(v.attrs))
    return DArr(Store(f'fresh@{line(node)}', v.store.val), attrs=dict(v.attrs))


@reg('dataarray.sel', 'dataarray.isel')
def _dasel(it, f, args, kw, node):
    used('xarray.DataArray.sel(**labels) with label lists: returns the selected sub-cube as a new array (assumed contract)')
    it.ctx.event('sel', source=f.bound, labels=dict(kw))
    return DArr(Store(('sel', f.bound.store.uid, tuple(sorted((k, tuple(v) if isinstance(v, (list, tuple)) else v) for k, v in kw.items()))), None))


@reg('np.array_equal')
def _array_equal(it, f, args, kw, node):
    """True for the very same array (same storage, whole views); otherwise an unknown truth value (both outcomes explored)"""
    a, b = args[0], args[1]
    if isinstance(a, NDArr) and isinstance(b, NDArr) and a.store is b.store and a.view == b.view:
        r = True
    else:
        r = it.ctx.branch(it.ctx.fresh_bool('array_equal'), 'np.array_equal')
    it.ctx.event('array_equal', a=a, b=b, result=r)
    return r
