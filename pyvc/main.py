"""bin/check entry point: exit 0 held / 1 violation / 2 undecided / 3 checker fault."""
import argparse
import importlib
import os
import sys

from . import ob


def main():
    ap = argparse.ArgumentParser()
    ap.add_argument('prop')
    ap.add_argument('--tier', default=os.environ.get('VERIF_TIER', 'quick'))
    ap.add_argument('--update-ledger', action='store_true')
    ap.add_argument('--only', default=None, help='substring filter on task names (development)')
    ap.add_argument('--no-selftest', action='store_true', help='thorough tier: skip the generator self-test (canned edits on scratch copies)')
    a = ap.parse_args()
    os.environ['VERIF_TIER'] = a.tier
    seed = int(os.environ.get('VERIF_SEED', '0') or 0)
    os.environ['VERIF_SEED'] = str(seed)
    mod = importlib.import_module(f'contracts.{a.prop.lower()}')
    tasks = mod.tasks(a.tier)
    if a.only:
        tasks = [t for t in tasks if a.only in t[1] or a.only in str(t[2])]
    rc = ob.run_property(a.prop, tasks, a.tier, seed, mod.LEVEL, mod.ASSUMPTIONS, update_ledger=a.update_ledger, partial=bool(a.only))
    if a.tier == 'thorough' and rc == 0 and not a.no_selftest and not a.only and not os.environ.get('VERIF_REPO'):
        selftest(a.prop)
    sys.exit(rc)


def selftest(prop):
    """thorough tier, only when the property held: canned edits of the code on scratch copies must be caught (breaking ones) or
    accepted (harmless ones).  Reported in the evidence file; never changes the verdict on the tree under test."""
    import json
    sys.path.insert(0, ob.ROOT)
    from tools import selftest as st
    res = st.run(prop, 'quick')
    path = os.path.join(os.environ.get('VERIF_OUT') or ob.ROOT, 'evidence', f'{prop}.json')
    ev = json.load(open(path))
    ev['coverage']['selftest'] = [dict(name=r['name'], expect=r['expect'], got=r['got'], violations=r.get('violations'),
                                       with_failing_input=r.get('with_failing_input'), first_obligations=r.get('first')) for r in res]
    json.dump(ev, open(path, 'w'), indent=1, default=str)
    for r in res:
        print(f"SELFTEST {prop} {r['name']}: expected {r['expect']}, got {r['got']}" + ('' if r['ok'] else '  <-- MISMATCH'))


if __name__ == '__main__':
    main()
