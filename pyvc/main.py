"""bin/check entry point: exit 0 held / 1 violation / 2 undecided / 3 checker fault."""
import argparse
import importlib
import os
import sys

from . import ob


def main():
    ap = argparse.ArgumentParser()
    ap.add_argument('prop')
    ap.add_argument('--tier', default=os.environ.get('VERIF_TIER', 'quick'))
    ap.add_argument('--update-ledger', action='store_true')
    ap.add_argument('--only', default=None, help='substring filter on task names (development)')
    a = ap.parse_args()
    os.environ['VERIF_TIER'] = a.tier
    seed = int(os.environ.get('VERIF_SEED', '0') or 0)
    os.environ['VERIF_SEED'] = str(seed)
    mod = importlib.import_module(f'contracts.{a.prop.lower()}')
    tasks = mod.tasks(a.tier)
    if a.only:
        tasks = [t for t in tasks if a.only in t[1] or a.only in str(t[2])]
    rc = ob.run_property(a.prop, tasks, a.tier, seed, mod.LEVEL, mod.ASSUMPTIONS, update_ledger=a.update_ledger, partial=bool(a.only))
    sys.exit(rc)


if __name__ == '__main__':
    main()
