"""Obligations, task pool, ledger, verdicts, evidence (DESIGN.md 3, 4.2, 4.3, 8.4)."""
import hashlib
import importlib
import json
import multiprocessing as mp
import os
import sys
import time
import traceback

import z3

from . import prove, intake

ROOT = os.path.dirname(os.path.dirname(os.path.abspath(__file__)))
LEDGER = os.path.join(ROOT, 'contracts', 'ledger.json')
KNOWN = os.path.join(ROOT, 'known_findings.json')

STANDING = [
    'A-REAL: float64/complex128 arithmetic treated as exact real arithmetic (polynomial identities hold in every commutative Q-algebra, hence over C)',
    'A-NUMBA: numba nopython compilation (fastmath) trusted to implement the Python semantics of the verified subset',
    'A-VCGEN: the self-written VC generator pyvc (AST->z3 symbolic executor, ite resolution, atom abstraction) is trusted; guarded by canaries and concrete cross-checks on every run',
    'A-Z3: z3 4.x/5.x SMT solver verdicts (unsat) trusted',
]


class Collector:
    """Collects obligation results inside a worker task."""

    def __init__(self, prop, prefix):
        self.prop = prop
        self.prefix = prefix
        self.results = []
        self.functions = {}
        self.trusted = set()
        self.default_replay = None

    def _replay(self, fn, d):
        """run a replay; replays that do not look at the obligation (they re-run the property's concrete check) run once per task"""
        import inspect
        import re
        cache = self.__dict__.setdefault('_rcache', {})
        try:
            body = inspect.getsource(fn).split('\n', 1)[1]
            uses = re.search(r'\b%s\b' % list(inspect.signature(fn).parameters)[0], body) is not None
        except Exception:
            uses = True
        if uses:
            return fn(d)
        if fn not in cache:
            cache[fn] = fn(d)
        return dict(cache[fn])

    def function(self, qualname):
        node, seg, sha = intake.func(qualname)
        self.functions[qualname] = sha
        return node

    def trust(self, what):
        self.trusted.add(what)

    def _add(self, oid, kind, res, **extra):
        d = dict(id=f'{self.prop}/{self.prefix}/{oid}', kind=kind)
        d.update(res)
        d.update(extra)
        self.results.append(d)
        return d

    def eq(self, oid, hyps, lhs, rhs, side=(), replay=None, smt_sample=False, timeout=None):
        r = prove.prove_eq(hyps, lhs, rhs, side=side, timeout=timeout or prove.TIMEOUT_MS)
        if r['status'] == 'refuted':
            r = self._second_stage(hyps, lhs, rhs, side, r)
        d = self._add(oid, 'vc', r)
        if smt_sample:
            d['sample'] = f'hyps={[str(h) for h in hyps][:12]} |- {str(z3.simplify(lhs))[:300]} == {str(z3.simplify(rhs))[:300]}'
        replay = replay or self.default_replay
        if d['status'] == 'refuted' and replay is not None:
            try:
                d['replay'] = self._replay(replay, d)
            except Exception as e:         # replay trouble must not turn into a verdict
                d['replay'] = dict(reproduced=False, error=f'{type(e).__name__}: {e}')
        return d

    def _second_stage(self, hyps, lhs, rhs, side, r1):
        """repeat without atom abstraction (full UF query) so that a spurious model of the
        abstraction is not reported"""
        t0 = time.time()
        s = z3.Solver()
        s.set('timeout', 30000)
        for h in hyps:
            s.add(h)
        for x in side:
            s.add(x)
        seen = {}

        def collect(e):
            if e.get_id() in seen:
                return
            seen[e.get_id()] = e
            for c in e.children():
                collect(c)
        collect(lhs)
        collect(rhs)
        from .sx import RCP
        for e in list(seen.values()):
            if z3.is_app(e) and e.decl().eq(RCP):
                s.add(z3.Implies(e.arg(0) != 0, e.arg(0) * e == 1))      # rcp is total; only a non-zero divisor has a reciprocal
        if s.check() == z3.unsat:
            # vacuity guard: hypotheses + side conditions + reciprocal axioms must be consistent before anything is concluded from them
            r1['second_stage'] = 'hypotheses inconsistent'
            return dict(status='unknown', backend='z3-full-uf', time=r1['time'] + round(time.time() - t0, 3),
                        reason='hypotheses of the full query are inconsistent (vacuous): nothing concluded')
        s.add(lhs != rhs)
        chk = s.check()
        if chk == z3.unsat:
            return dict(status='proved', backend='z3-full-uf', time=r1['time'] + round(time.time() - t0, 3))
        if chk == z3.sat:
            r1['second_stage'] = 'sat'
            try:
                r1['model']['_full'] = prove.model_dict(s.model())
            except Exception:
                pass
            return r1
        # the abstraction-level counter-model could not be confirmed on the full query (atoms that the hypotheses relate are treated as
        # independent by the abstraction): undecided, never a violation
        return dict(status='unknown', backend='z3-full-uf', time=r1['time'] + round(time.time() - t0, 3), second_stage='unknown',
                    reason='counter-model of the atom abstraction not confirmed by the full query (solver: unknown)')

    def lia(self, oid, hyps, goal, replay=None, sample=False):
        hyps = list(hyps) + self._rcp_axioms(list(hyps) + [goal])
        r = prove.prove_lia(hyps, goal)
        if r['status'] == 'proved' and hyps and prove.check_sat(hyps, timeout=5000) == z3.unsat:
            # vacuity guard: an inconsistent hypothesis set proves everything
            r = dict(status='unknown', backend=r['backend'], time=r['time'], reason='hypotheses are inconsistent (vacuous): nothing concluded')
        d = self._add(oid, 'vc', r)
        if sample:
            d['sample'] = f'hyps={[str(h) for h in hyps][:12]} |- {str(goal)[:400]}'
        replay = replay or self.default_replay
        if d['status'] == 'refuted' and replay is not None:
            try:
                d['replay'] = self._replay(replay, d)
            except Exception as e:
                d['replay'] = dict(reproduced=False, error=f'{type(e).__name__}: {e}')
        return d

    def _rcp_axioms(self, terms):
        """b != 0 => b * rcp(b) == 1 for every reciprocal occurring in the terms (unguarded, a reciprocal that only occurs on an infeasible
        branch with a zero divisor would make the hypotheses inconsistent and every goal provable)"""
        from .sx import RCP
        seen, out = {}, []

        def walk(e):
            if e.get_id() in seen:
                return
            seen[e.get_id()] = e
            if z3.is_app(e) and e.decl().eq(RCP):
                out.append(z3.Implies(e.arg(0) != 0, e.arg(0) * e == 1))
            for c in e.children():
                walk(c)
        for t in terms:
            if z3.is_expr(t):
                walk(t)
        return out

    def canary_eq(self, oid, hyps, lhs, rhs, side=()):
        """deliberately wrong obligation: must NOT be provable"""
        r = prove.prove_eq(hyps, lhs, rhs, side=side, timeout=20000)
        ok = r['status'] == 'refuted'
        return self._add(oid, 'canary', dict(status='ok' if ok else 'canary-not-refuted',
                                               backend=r['backend'], time=r['time']))

    def canary_lia(self, oid, hyps, goal):
        r = prove.prove_lia(hyps, goal, timeout=20000, want_model=False)
        ok = r['status'] == 'refuted'
        return self._add(oid, 'canary', dict(status='ok' if ok else 'canary-not-refuted',
                                               backend=r['backend'], time=r['time']))

    def satisfiable(self, oid, hyps):
        t0 = time.time()
        r = prove.check_sat(hyps)
        return self._add(oid, 'guard', dict(status='ok' if r == z3.sat else 'vacuous-hypotheses',
                                              backend='z3', time=round(time.time() - t0, 3)))

    def concrete(self, oid, ok, detail, bounded=None, cases=0):
        """run-time evaluation of a contract on the real function (cross-check or bounded stand-in)"""
        return self._add(oid, 'bounded' if bounded else 'concrete',
                         dict(status='ok' if ok else 'failed', backend='cpython', time=0.0,
                              detail=detail, bound=bounded, cases=cases))

    def undecided(self, oid, why):
        return self._add(oid, 'vc', dict(status='unknown', backend='-', time=0.0, reason=why))

    def pack(self):
        return dict(results=self.results, functions=self.functions, trusted=sorted(self.trusted))


def guarded(fn, *a, **k):
    """run a concrete check of the real code; an exception raised by the code under test is a failure
    of the contract (with the traceback as detail), not a checker crash"""
    try:
        return fn(*a, **k)
    except Exception as e:
        return dict(reproduced=True, cases=0, exception=f'{type(e).__name__}: {e}', tb=traceback.format_exc()[-1200:],
                    how=f'{fn.__module__}.{fn.__name__}{a!r}')


def _run_task(arg):
    modname, fname, kwargs = arg
    t0 = time.time()
    try:
        mod = importlib.import_module(modname)
        out = getattr(mod, fname)(**kwargs)
        out['task'] = f'{modname}.{fname}{kwargs or ""}'
        out['wall'] = round(time.time() - t0, 2)
        return out
    except Exception as e:
        from .sx import OutsideSubset
        from .cx import Unsupported
        # a missing local name / changed shape of the code under contract (KeyError, IndexError in the contract module) means the
        # contract no longer lines up with the source: undecided, not a checker crash
        kind = 'outside-subset' if isinstance(e, (OutsideSubset, intake.IntakeError, Unsupported, LookupError)) else 'crash'
        return dict(results=[], functions={}, trusted=[], task=f'{modname}.{fname}{kwargs or ""}',
                    error=f'{type(e).__name__}: {e}', error_kind=kind, tb=traceback.format_exc()[-1500:],
                    wall=round(time.time() - t0, 2))


def load_json(path, default):
    try:
        with open(path) as f:
            return json.load(f)
    except FileNotFoundError:
        return default


def run_property(prop, tasks, tier, seed, level_text, assumptions, update_ledger=False, nproc=None, partial=False):
    t0 = time.time()
    nproc = nproc or min(16, max(1, len(tasks)))
    # non-daemonic workers: concrete checks of the real code may start worker processes of their own (C11)
    from concurrent.futures import ProcessPoolExecutor
    with ProcessPoolExecutor(max_workers=nproc, mp_context=mp.get_context('fork')) as pool:
        outs = list(pool.map(_run_task, tasks, chunksize=1))
    results, functions, trusted, errors = [], {}, set(), []
    for o in outs:
        results.extend(o['results'])
        functions.update(o['functions'])
        trusted.update(o['trusted'])
        if 'error' in o:
            errors.append(o)
    # frame condition behind every per-call contract: the functions under contract keep no state outside their arguments (module-level mutable
    # containers, globals, caching decorators) -- syntactic, from the current source
    for q in sorted(functions):
        try:
            hs = intake.hidden_state(q)
        except Exception:
            continue
        rid = f'{prop}/frame/no_state_outside_the_arguments/{q}'
        if hs:
            results.append(dict(id=rid, kind='vc', status='unknown', backend='ast', time=0.0,
                                reason=f'refers to module-level mutable state, a global or a caching decorator ({sorted(hs)}): not a function of its '
                                       'arguments alone, so a per-call contract says nothing about a later call'))
        else:
            results.append(dict(id=rid, kind='vc', status='proved', backend='ast', time=0.0))
    ledger = load_json(LEDGER, {})
    known = load_json(KNOWN, [])
    vcs = [r for r in results if r['kind'] == 'vc']
    ids = [r['id'] for r in results]
    dup = {i for i in ids if ids.count(i) > 1}
    exit_code = 0
    lines = []
    # -------- checker faults
    faults = []
    if dup:
        faults.append(f'duplicate obligation ids {sorted(dup)[:5]}')
    for o in errors:
        if o['error_kind'] == 'crash':
            faults.append(f"task {o['task']} crashed: {o['error']}")
    for r in results:
        if r['kind'] == 'canary' and r['status'] != 'ok':
            faults.append(f"canary {r['id']} was not refuted (vacuous or unsound encoding)")
        if r['kind'] == 'guard' and r['status'] != 'ok':
            faults.append(f"guard {r['id']}: {r['status']}")
    if not vcs and not update_ledger:
        faults.append('zero obligations generated')
    # -------- undecided
    undec = [r for r in vcs if r['status'] == 'unknown']
    for o in errors:
        if o['error_kind'] == 'outside-subset':
            undec.append(dict(id=f"{prop}/task/{o['task']}", reason=o['error']))
    want = set() if partial else set(ledger.get(prop, []))
    have = {r['id'] for r in vcs}
    missing = sorted(want - have)
    for mid in missing:
        undec.append(dict(id=mid, reason='obligation in ledger was not generated from the current source (contract no longer lines up)'))
    # -------- violations
    OUT = os.environ.get('VERIF_OUT') or ROOT       # development runs on scratch copies keep evidence/replays out of the tree
    os.makedirs(os.path.join(OUT, 'replays'), exist_ok=True)
    viol = []
    known_hits = []
    bad = [r for r in results if (r['kind'] == 'vc' and r['status'] == 'refuted')
           or (r['kind'] in ('concrete', 'bounded') and r['status'] == 'failed')]
    for r in bad:
        kf = [k for k in known if k.get('property') == prop and k.get('status') == 'open'
              and k.get('obligation') == r['id']]
        if kf:
            known_hits.append((kf[0], r))
            lines.append(f"KNOWN-FINDING: property={prop} {kf[0]['what']}")
            continue
        path = os.path.join(OUT, 'replays', r['id'].replace('/', '__') + '.json')
        rep = r.get('replay') or {}
        with open(path, 'w') as f:
            json.dump(dict(property=prop, obligation=r['id'], kind=r['kind'], solver_output=r,
                           replay=rep, functions=functions,
                           how_to_rerun=f'cd {ROOT} && bin/check {prop} --tier {tier}'), f, indent=1, default=str)
        reproduced = rep.get('reproduced') or r['kind'] in ('concrete', 'bounded')
        suffix = '' if reproduced else ' no-failing-input-found'
        lines.append(f'VIOLATION property={prop} replay={path}{suffix}')
        viol.append(r)
    if faults:
        exit_code = 3
    if undec and exit_code == 0:
        exit_code = 2
    if viol:
        exit_code = 1
    # -------- ledger update (developer action only)
    proved = sorted(r['id'] for r in vcs if r['status'] == 'proved')
    if update_ledger and not partial:
        ledger[prop] = proved
        with open(LEDGER, 'w') as f:
            json.dump(ledger, f, indent=0, sort_keys=True)
    # -------- evidence
    backends = {}
    for r in vcs:
        b = backends.setdefault(r['backend'], dict(count=0, cpu_s=0.0))
        b['count'] += 1
        b['cpu_s'] = round(b['cpu_s'] + r.get('time', 0), 3)
    samples = [dict(id=r['id'], status=r['status'], backend=r['backend'], time=r['time'],
                    text=r.get('sample', '')) for r in vcs if r.get('sample')][:12]
    if not samples:
        samples = [dict(id=r['id'], status=r['status'], backend=r['backend'], time=r['time']) for r in vcs[:8]]
    ev = dict(
        property_id=prop, tier=tier, seed=seed, level='proof',
        coverage=dict(
            obligations=len(vcs), discharged=len(proved),
            checker_cmd=f'bin/check {prop} --tier {tier}',
            trusted_base=STANDING + sorted(trusted),
            functions=[dict(name=k, sha256=v) for k, v in sorted(functions.items())],
            backends=backends,
            samples=samples,
            cvc5_crosscheck=dict(agree=sum(r.get('cvc5') == 'unsat' for r in vcs), no_verdict=sum(r.get('cvc5') == 'noverdict' for r in vcs),
                                 disagree=sum(r.get('cvc5') == 'sat' for r in vcs), note='thorough tier only: every z3 unsat verdict of an SMT query re-checked by cvc5 1.0.3 (10 s)'),
            canaries=dict(total=sum(r['kind'] == 'canary' for r in results),
                          refuted_as_expected=sum(r['kind'] == 'canary' and r['status'] == 'ok' for r in results)),
            hypothesis_sets_checked_satisfiable=sum(r['kind'] == 'guard' and r['status'] == 'ok' for r in results),
            concrete_crosschecks=[dict(id=r['id'], status=r['status'], cases=r.get('cases', 0), detail=str(r.get('detail'))[:300])
                                  for r in results if r['kind'] == 'concrete'],
            bounded=[dict(id=r['id'], status=r['status'], bound=r.get('bound'), cases=r.get('cases', 0))
                     for r in results if r['kind'] == 'bounded'],
            undecided=[dict(id=u['id'], reason=str(u.get('reason'))[:300]) for u in undec],
            known_findings=[k['what'] for k, _ in known_hits],
            ledger_size=len(want), ledger_missing=missing,
            obligation_ids=sorted(have),
            solver_cpu_s=round(sum(r.get('time', 0) for r in results), 2),
            checker_faults=faults,
            explanation=level_text,
        ),
        assumptions=STANDING + sorted(trusted) + list(assumptions),
        wall_s=round(time.time() - t0, 2),
        violations=len(viol),
    )
    os.makedirs(os.path.join(OUT, 'evidence'), exist_ok=True)
    with open(os.path.join(OUT, 'evidence', f'{prop}.json'), 'w') as f:
        json.dump(ev, f, indent=1, default=str)
    # -------- report
    print(f'[{prop}] tier={tier} obligations={len(vcs)} discharged={len(proved)} '
          f'canaries={ev["coverage"]["canaries"]} concrete={len(ev["coverage"]["concrete_crosschecks"])} '
          f'bounded={len(ev["coverage"]["bounded"])} wall={ev["wall_s"]}s')
    for r in vcs:
        if r['status'] != 'proved':
            print(f"  {r['status'].upper()} {r['id']} backend={r['backend']} {str(r.get('reason', ''))[:200]}")
    for u in undec[:25]:
        print(f"UNDECIDED obligation={u['id']} reason={str(u.get('reason'))[:300]}")
    if len(undec) > 25:
        print(f'... and {len(undec) - 25} more undecided obligations (see evidence file)')
    for fl in faults:
        print(f'CHECKER-FAULT {fl}')
    for o in errors:
        print(f"  task error: {o['task']}: {o['error']}")
        if o['error_kind'] == 'crash':
            print(o['tb'])
    for ln in lines:
        print(ln)
    return exit_code
