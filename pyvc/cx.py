"""Control executor (DESIGN.md 2.6): a path-forking symbolic interpreter for the Python
orchestration code of emg3d (solver control flow, Simulation caches, surveys, CLI parser).

Abstraction: tracked values are concrete Python values, z3 integers/reals/booleans,
records (Obj) with named fields, abstract numpy arrays (NDArr: storage identity + a point-wise
symbolic value), and opaque values.  Paths are enumerated by re-execution under a decision
script (every undecided branch forks).  In-repo callees are inlined from their current source
unless a contract summary is registered; library calls go through the prelude (assumed
dependency contracts) or yield opaque values.  Every in-place mutation of an array storage is
recorded as an event so that frame / ownership obligations can be stated over a path.
"""
import ast
import itertools
import z3

from . import intake


class Unsupported(Exception):
    """construct outside the interpreted subset -> obligations depending on it are undecided"""


class _Return(Exception):
    def __init__(self, value):
        self.value = value


class _Raise(Exception):
    def __init__(self, exc):
        self.exc = exc


class _Break(Exception):
    pass


class _Continue(Exception):
    pass


class PathLimit(Exception):
    pass


class _Stop(Exception):
    """end of a path requested by a contract hook (e.g. after one generic loop iteration)"""

    def __init__(self, value=None):
        self.value = value


# ----------------------------------------------------------------------------- values
class Opaque:
    _n = itertools.count()

    def __init__(self, tag='?', deps=()):
        self.tag = tag
        self.deps = tuple(deps)
        self.uid = next(Opaque._n)
        self.tags = set()             # provenance tags (taint)
        for d in self.deps:
            self.tags |= deps_of(d)

    def __repr__(self):
        return f'<opaque {self.tag}#{self.uid}>'


class Obj:
    _n = itertools.count()

    def __init__(self, cls, fields=None, mod=None):
        self.cls = cls
        self.mod = mod
        self.fields = dict(fields or {})
        self.uid = next(Obj._n)

    def __repr__(self):
        return f'<{self.cls}#{self.uid}>'


class Store:
    _n = itertools.count()

    def __init__(self, origin, val=None):
        self.uid = next(Store._n)
        self.origin = origin          # 'fresh@<line>', 'param:<name>', ...
        self.val = val                # point-wise symbolic value (z3 Real) or None
        self.version = 0
        self.deps = set()             # provenance tags this content was computed from (taint)

    def __repr__(self):
        return f'<store#{self.uid} {self.origin} v{self.version}>'


class NDArr:
    """abstract numpy array: a view onto a storage"""

    def __init__(self, store, view='whole', dtype=None, pred=None):
        self.store = store
        self.view = view
        self.dtype = dtype
        self.pred = pred            # element-wise predicate this boolean array stands for (IEEE semantics)

    def __repr__(self):
        return f'<ndarray {self.store} {self.view}>'


class DArr(NDArr):
    """abstract xarray.DataArray: like an ndarray (same storage model) plus .data/.loc/.copy/.sel"""

    def __init__(self, store, view='whole', dtype=None, pred=None, attrs=None):
        super().__init__(store, view, dtype, pred)
        self.attrs = attrs if attrs is not None else {}


class Vec(list):
    """small numpy array of concrete length holding scalar values (np.zeros(3), np.array([a,b,c])):
    element-wise arithmetic / comparison, in-place element update"""
    pass


class Ext:
    """extension value supplied by a contract module (e.g. a symbolic sequence): the executor forwards attribute access,
    subscripts, arithmetic and comparisons to it.  A method returns NotImplemented when the operation is outside its model."""

    def cx_getattr(self, it, attr):
        return NotImplemented

    def cx_getitem(self, it, key):
        return NotImplemented

    def cx_binop(self, it, op, other, reflected):
        return NotImplemented

    def cx_cmp(self, it, op, other, reflected):
        return NotImplemented

    def cx_setitem(self, it, key, value):
        """`ext[key] = value`"""
        return NotImplemented

    def cx_inplace(self, it, op, other):
        """`name op= other` on a name / attribute bound to this value (numpy: mutates the object); NotImplemented = rebinding semantics"""
        return NotImplemented

    def cx_iter(self, it):
        """list of the items iteration yields"""
        return NotImplemented


class SuperProxy:
    """super() inside a method of class (mod, cname), called on the object obj"""

    def __init__(self, obj, mod, cname):
        self.obj, self.mod, self.cname = obj, mod, cname


class ExcVal:
    def __init__(self, typ, args=()):
        self.typ = typ
        self.args = args

    def __repr__(self):
        return f'{self.typ}{self.args!r}'


class Closure:
    def __init__(self, node, env, interp, qualname=None, self_obj=None):
        self.node, self.env, self.interp, self.qualname, self.self_obj = node, env, interp, qualname, self_obj


class LocalClass:
    """class defined inside a function body"""

    def __init__(self, node, interp, env):
        self.node, self.interp, self.env = node, interp, env


class ModRef:
    def __init__(self, name):
        self.name = name

    def __repr__(self):
        return f'<module {self.name}>'


class OptionalModule(Opaque):
    """module global that is either an imported module or None (optional dependency)"""

    def __init__(self, name):
        super().__init__('optional-module ' + name)
        self.modname = name


class LibFn:
    def __init__(self, name, bound=None):
        self.name = name
        self.bound = bound

    def __repr__(self):
        return f'<lib {self.name}>'


class ClassRef:
    def __init__(self, mod, name):
        self.mod, self.name = mod, name


def is_sym(v):
    return z3.is_expr(v)


def deps_of(v, _seen=None):
    """provenance tags a value was computed from"""
    if isinstance(v, NDArr):
        return set(v.store.deps)
    if isinstance(v, Opaque):
        return set(v.tags)
    if isinstance(v, (list, tuple, set)):
        out = set()
        for x in v:
            out |= deps_of(x, _seen)
        return out
    if isinstance(v, dict):
        out = set()
        for x in v.values():
            out |= deps_of(x, _seen)
        return out
    if isinstance(v, Obj):
        _seen = _seen if _seen is not None else set()
        if v.uid in _seen:
            return set()
        _seen.add(v.uid)
        out = set(v.fields.get('__tags__', ()))
        for k, x in v.fields.items():
            if isinstance(x, (NDArr, Opaque)) or (isinstance(x, Obj) and k in ('_field',)):
                out |= deps_of(x, _seen)
        return out
    return set()


def taint(result, sources):
    t = set()
    for s_ in sources:
        t |= deps_of(s_)
    if not t:
        return result
    if isinstance(result, NDArr):
        result.store.deps |= t
    elif isinstance(result, Opaque):
        result.tags |= t
    elif isinstance(result, (list, tuple)):
        for x in result:
            taint(x, sources)
    return result


def R(x):
    if isinstance(x, bool):
        return z3.BoolVal(x)
    if isinstance(x, int):
        return z3.IntVal(x)
    if isinstance(x, float):
        if x != x or x in (float('inf'), float('-inf')):
            raise Unsupported(f'non-finite float {x} in symbolic arithmetic')
        return z3.RealVal(repr(x))
    return x


def num_pair(a, b):
    a, b = R(a), R(b)
    if z3.is_bool(a):
        a = z3.If(a, 1, 0)
    if z3.is_bool(b):
        b = z3.If(b, 1, 0)
    if z3.is_int(a) != z3.is_int(b):
        a = z3.ToReal(a) if z3.is_int(a) else a
        b = z3.ToReal(b) if z3.is_int(b) else b
    return a, b


# ----------------------------------------------------------------------------- context
class Ctx:
    """one path"""

    def __init__(self, script, pc0=(), summaries=None, opts=None):
        self.script = list(script)
        self.pos = 0
        self.pc = list(pc0)
        self.events = []
        self.summaries = summaries or {}
        self.opts = opts or {}
        self.fresh = itertools.count()
        self.pending = []          # alternative scripts discovered on this path
        self.depth = 0
        self.solver = z3.Solver()
        self.solver.set('timeout', 5000)
        for h in self.pc:
            self.solver.add(h)

    def assume(self, c):
        self.pc.append(c)
        self.solver.add(c)

    def event(self, kind, **kw):
        kw['kind'] = kind
        self.events.append(kw)

    def fresh_bool(self, tag):
        return z3.Bool(f'{tag}!{next(self.fresh)}')

    def fresh_int(self, tag):
        return z3.Int(f'{tag}!{next(self.fresh)}')

    def fresh_real(self, tag):
        return z3.Real(f'{tag}!{next(self.fresh)}')

    def feasible(self, c):
        self.solver.push()
        self.solver.add(c)
        r = self.solver.check()
        self.solver.pop()
        return r != z3.unsat

    def branch(self, cond, why=''):
        """decide a condition on this path; forks when both outcomes are feasible"""
        if isinstance(cond, bool):
            return cond
        if not z3.is_bool(cond):
            raise Unsupported(f'branch on non-boolean {cond!r}')
        cs = z3.simplify(cond)
        if z3.is_true(cs):
            return True
        if z3.is_false(cs):
            return False
        t_ok = self.feasible(cs)
        f_ok = self.feasible(z3.Not(cs))
        if t_ok and not f_ok:
            return True
        if f_ok and not t_ok:
            return False
        if not t_ok and not f_ok:
            raise PathLimit('infeasible path')
        if self.pos < len(self.script):
            d = self.script[self.pos]
        else:
            d = True
            self.script.append(True)
            self.pending.append(self.script[:self.pos] + [False])
        self.pos += 1
        self.assume(cs if d else z3.Not(cs))
        return d


class PathResult:
    def __init__(self, ctx, outcome, value, state=None):
        self.pc = ctx.pc
        self.events = ctx.events
        self.outcome = outcome        # 'return' | 'raise'
        self.value = value
        self.state = state
        self.script = list(ctx.script)

    def calls(self, name=None):
        return [e for e in self.events if e['kind'] == 'call' and (name is None or e['name'] == name)]

    def mutations(self):
        return [e for e in self.events if e['kind'] == 'mutate']


def explore(run, pc0=(), summaries=None, opts=None, max_paths=4000):
    """run(ctx) executes one path and returns (outcome, value, state).  All feasible decision
    scripts are explored depth-first."""
    todo = [[]]
    results = []
    while todo:
        script = todo.pop()
        ctx = Ctx(script, pc0, summaries, opts)
        try:
            outcome, value, state = run(ctx)
        except PathLimit:
            continue
        todo.extend(ctx.pending)
        results.append(PathResult(ctx, outcome, value, state))
        if len(results) > max_paths:
            raise Unsupported(f'more than {max_paths} paths')
    return results


# ----------------------------------------------------------------------------- interpreter
BUILTIN_EXC = ('ValueError', 'TypeError', 'KeyError', 'AttributeError', 'NotImplementedError', 'IndexError',
               'RuntimeError', 'Exception', 'ImportError', 'ZeroDivisionError', 'StopIteration')


class Interp:
    def __init__(self, ctx, mod):
        self.ctx = ctx
        self.mod = mod
        self.genv = self.module_env(mod)

    # ------------------------------------------------ module level names
    _modcache = {}

    def module_env(self, mod):
        key = (mod, id(self.ctx))
        env = {}
        src, tree = intake.module_ast(mod)
        for n in tree.body:
            if isinstance(n, ast.Import):
                for a in n.names:
                    env[a.asname or a.name.split('.')[0]] = ModRef(a.name if a.asname else a.name.split('.')[0])
            elif isinstance(n, ast.ImportFrom):
                for a in n.names:
                    nm = a.asname or a.name
                    if n.module and n.module.startswith('emg3d'):
                        sub = n.module.split('.', 1)[1] if '.' in n.module else None
                        if sub is None:
                            env[nm] = ModRef('emg3d.' + a.name)
                        else:
                            env[nm] = ('repo', sub.replace('.', '/'), a.name)
                    else:
                        env[nm] = LibFn(f'{n.module}.{a.name}')
            elif isinstance(n, ast.FunctionDef):
                env[n.name] = ('repo', mod, n.name)
            elif isinstance(n, ast.ClassDef):
                env[n.name] = ClassRef(mod, n.name)
            elif isinstance(n, ast.Assign) and len(n.targets) == 1 and isinstance(n.targets[0], ast.Name):
                try:
                    env[n.targets[0].id] = ast.literal_eval(n.value)
                except Exception:
                    env[n.targets[0].id] = Opaque('module-const ' + n.targets[0].id)
            elif isinstance(n, ast.Try):
                # optional imports (try: import x / except ImportError: x = None): the name is an unknown module global,
                # so that both outcomes of `x is None` are explored
                for sub in ast.walk(n):
                    if isinstance(sub, ast.Import):
                        for a in sub.names:
                            env.setdefault(a.asname or a.name.split('.')[0], OptionalModule(a.asname or a.name.split('.')[0]))
                    elif isinstance(sub, ast.ImportFrom):
                        for a in sub.names:
                            env.setdefault(a.asname or a.name, LibFn(f'{sub.module}.{a.name}'))
                    elif isinstance(sub, ast.Assign):
                        for t in sub.targets:
                            if isinstance(t, ast.Name):
                                env[t.id] = OptionalModule(t.id)
        return env

    # ------------------------------------------------ helpers
    def truth(self, v, why=''):
        if v is None or isinstance(v, (bool, int, float, str, tuple, list, dict, set)):
            return bool(v)
        if is_sym(v):
            if z3.is_bool(v):
                return self.ctx.branch(v, why)
            return self.ctx.branch(v != 0, why)
        if isinstance(v, Opaque):
            return self.ctx.branch(self.ctx.fresh_bool('truth_' + v.tag.replace(' ', '_')[:20]), why)
        if isinstance(v, NDArr):
            return self.ctx.branch(self.ctx.fresh_bool('arrtruth'), why)
        return True

    def lookup(self, name, env):
        if name in env:
            return env[name]
        if name in self.genv:
            return self.genv[name]
        if name in BUILTINS:
            return LibFn('builtins.' + name)
        if name in BUILTIN_EXC or name.endswith('Error') or name.endswith('Warning'):
            return ClassRef('builtins', name)
        raise Unsupported(f'unbound name {name}')

    # ------------------------------------------------ expressions
    def ev(self, n, env):
        m = getattr(self, 'ev_' + type(n).__name__, None)
        if m is None:
            raise Unsupported(f'expression {type(n).__name__} (line {getattr(n, "lineno", "?")})')
        return m(n, env)

    def ev_Constant(self, n, env):
        return n.value

    def ev_Name(self, n, env):
        return self.lookup(n.id, env)

    def seq_elts(self, n, env):
        out = []
        for e in n.elts:
            if isinstance(e, ast.Starred):
                v = self.ev(e.value, env)
                out.extend(self.iterate(v) if not isinstance(v, Opaque) else [Opaque('starred')])
            else:
                out.append(self.ev(e, env))
        return out

    def ev_Tuple(self, n, env):
        return tuple(self.seq_elts(n, env))

    def ev_List(self, n, env):
        return self.seq_elts(n, env)

    def ev_Set(self, n, env):
        return set(self.ev(e, env) for e in n.elts)

    def ev_Dict(self, n, env):
        d = {}
        for k, v in zip(n.keys, n.values):
            if k is None:
                d.update(self.ev(v, env))
            else:
                d[self.ev(k, env)] = self.ev(v, env)
        return d

    def ev_JoinedStr(self, n, env):
        parts = []
        for v in n.values:
            if isinstance(v, ast.Constant):
                parts.append(v.value)
            else:
                x = self.ev(v.value, env)
                if isinstance(x, (str, int, float, bool)) or x is None:
                    parts.append(format(x) if not v.format_spec else str(x))
                else:
                    return Opaque('str')
        return ''.join(parts)

    def ev_Lambda(self, n, env):
        return Closure(n, dict(env), self)

    def ev_IfExp(self, n, env):
        return self.ev(n.body, env) if self.truth(self.ev(n.test, env)) else self.ev(n.orelse, env)

    def ev_BoolOp(self, n, env):
        last = None
        for v in n.values:
            last = self.ev(v, env)
            t = self.truth(last)
            if isinstance(n.op, ast.And) and not t:
                return last if not is_sym(last) else False
            if isinstance(n.op, ast.Or) and t:
                return last if not is_sym(last) else True
        return last if not is_sym(last) else isinstance(n.op, ast.And)

    def ev_UnaryOp(self, n, env):
        v = self.ev(n.operand, env)
        if isinstance(n.op, ast.Not):
            return not self.truth(v)
        if isinstance(n.op, ast.Invert) and is_sym(v) and z3.is_bool(v):
            return z3.Not(v)            # ~ on a numpy boolean
        if isinstance(v, Ext) and hasattr(v, 'cx_unary'):
            r = v.cx_unary(self, n.op)
            if r is NotImplemented:
                raise Unsupported(f'{type(n.op).__name__} on extension value')
            return r
        if isinstance(v, Opaque):
            return Opaque('unary', [v])
        if isinstance(v, NDArr):
            return self.arr_op('neg', v, None, n)
        if isinstance(n.op, ast.USub) and isinstance(v, Vec):
            return Vec(-x for x in v)
        if isinstance(n.op, ast.USub):
            return -v
        if isinstance(n.op, ast.UAdd):
            return v
        raise Unsupported('unary')

    def ev_BinOp(self, n, env):
        return self.binop(n.op, self.ev(n.left, env), self.ev(n.right, env), n)

    def binop(self, op, a, b, node=None):
        if isinstance(op, (ast.BitOr, ast.BitAnd)) and isinstance(a, bool) and isinstance(b, bool):
            return (a or b) if isinstance(op, ast.BitOr) else (a and b)
        if isinstance(a, Ext) or isinstance(b, Ext):
            r = a.cx_binop(self, op, b, False) if isinstance(a, Ext) else NotImplemented
            if r is NotImplemented and isinstance(b, Ext):
                r = b.cx_binop(self, op, a, True)
            if r is NotImplemented:
                raise Unsupported(f'{type(op).__name__} on extension value')
            return r
        if isinstance(a, Vec) or isinstance(b, Vec):
            if isinstance(a, Vec) and isinstance(b, Vec):
                if len(a) != len(b):
                    raise _Raise(ExcVal('ValueError', ('shape mismatch',)))
                return Vec(self.binop(op, x, y, node) for x, y in zip(a, b))
            if isinstance(a, Vec):
                return Vec(self.binop(op, x, b, node) for x in a)
            return Vec(self.binop(op, a, y, node) for y in b)
        if isinstance(a, NDArr) or isinstance(b, NDArr):
            return self.arr_op(type(op).__name__, a, b, node)
        if isinstance(a, Opaque) or isinstance(b, Opaque):
            return Opaque('binop', [x for x in (a, b) if isinstance(x, Opaque)])
        conc = lambda x: isinstance(x, (int, float, complex, str, list, tuple, bool)) and not is_sym(x)
        if conc(a) and conc(b):
            try:
                return {ast.Add: lambda: a + b, ast.Sub: lambda: a - b, ast.Mult: lambda: a * b,
                        ast.Div: lambda: a / b, ast.FloorDiv: lambda: a // b, ast.Mod: lambda: a % b,
                        ast.Pow: lambda: a ** b}[type(op)]()
            except ZeroDivisionError:
                raise _Raise(ExcVal('ZeroDivisionError'))
        if isinstance(a, str) and isinstance(op, ast.Mod):
            return Opaque('str')
        if isinstance(a, complex) or isinstance(b, complex) or any(isinstance(x, float) and (x != x or abs(x) == float('inf')) for x in (a, b)):
            return Opaque('nonreal-arithmetic')
        if isinstance(a, (str, list, tuple)) or isinstance(b, (str, list, tuple)):
            return Opaque('seqop')
        a, b = num_pair(a, b)
        if isinstance(op, ast.Add):
            return a + b
        if isinstance(op, ast.Sub):
            return a - b
        if isinstance(op, ast.Mult):
            return a * b
        if isinstance(op, ast.Div):
            if z3.is_int(a) and z3.is_int(b) and z3.is_int_value(z3.simplify(b)) and z3.simplify(b).as_long() > 0 \
                    and not self.ctx.feasible(a % b != 0):
                # exact division of integers stays an (integer-valued) number: float(n/2) == n//2
                return a / b
            a = z3.ToReal(a) if z3.is_int(a) else a
            b = z3.ToReal(b) if z3.is_int(b) else b
            return a / b
        if isinstance(op, (ast.FloorDiv, ast.Mod)):
            if z3.is_int(a) and z3.is_int(b):
                # python floor semantics == z3 euclidean semantics for positive divisor (asserted)
                if not self.ctx.branch(b > 0, 'positive divisor'):
                    raise Unsupported('// or % by a possibly non-positive divisor')
                return a / b if isinstance(op, ast.FloorDiv) else a % b
            raise Unsupported('// or % on reals')
        if isinstance(op, ast.Pow):
            bs = z3.simplify(b)
            kexp = bs.as_long() if z3.is_int_value(bs) else (
                int(bs.as_fraction()) if z3.is_rational_value(bs) and bs.as_fraction().denominator == 1 else None)
            if kexp is not None and 0 <= kexp <= 8:
                r = R(1)
                for _ in range(kexp):
                    r, a2 = num_pair(r, a)
                    r = r * a2
                return r
            return Opaque('pow')
        raise Unsupported(f'binop {type(op).__name__}')

    def arr_op(self, opname, a, b, node):
        """element-wise operation producing a fresh array"""
        if opname in ('BitOr', 'BitAnd') and isinstance(a, NDArr) and isinstance(b, NDArr):
            bv = None
            if a.store.val is not None and b.store.val is not None and z3.is_bool(a.store.val) and z3.is_bool(b.store.val):
                bv = z3.Or(a.store.val, b.store.val) if opname == 'BitOr' else z3.And(a.store.val, b.store.val)
            pr = ('or' if opname == 'BitOr' else 'and', a.pred, b.pred) if a.pred is not None and b.pred is not None else None
            if bv is not None or pr is not None:
                return taint(NDArr(Store(f'fresh@{getattr(node, "lineno", 0)}', bv), dtype='bool', pred=pr), [a, b])
        va = a.store.val if isinstance(a, NDArr) else a
        vb = b.store.val if isinstance(b, NDArr) else b
        val = self.pointwise(opname, va, vb)
        cls_ = DArr if isinstance(a, DArr) or isinstance(b, DArr) else NDArr
        return taint(cls_(Store(f'fresh@{getattr(node, "lineno", 0)}', val)), [a, b])

    def pointwise(self, opname, va, vb):
        if opname == 'neg':
            return None if va is None or isinstance(va, Opaque) else -va
        if va is None or vb is None or isinstance(va, Opaque) or isinstance(vb, Opaque):
            return None
        try:
            if opname == 'Pow':
                k = vb if isinstance(vb, int) else (int(vb) if isinstance(vb, float) and vb.is_integer() else None)
                if k is None or abs(k) > 6:
                    return None
                va = R(va)
                va = z3.ToReal(va) if z3.is_int(va) else va
                r = z3.RealVal(1)
                for _ in range(abs(k)):
                    r = r * va
                return r if k >= 0 else 1 / r
            va, vb = num_pair(va, vb)
            va = z3.ToReal(va) if z3.is_int(va) else va
            vb = z3.ToReal(vb) if z3.is_int(vb) else vb
            return {'Add': lambda: va + vb, 'Sub': lambda: va - vb, 'Mult': lambda: va * vb,
                    'Div': lambda: va / vb}[opname]()
        except Exception:
            return None

    def ev_Compare(self, n, env):
        left = self.ev(n.left, env)
        res = True
        for op, rn in zip(n.ops, n.comparators):
            right = self.ev(rn, env)
            r = self.cmp(op, left, right, n)
            if isinstance(r, bool):
                if not r:
                    return False
            else:
                res = r if res is True else z3.And(res, r)
            left = right
        return res

    def cmp(self, op, a, b, node=None):
        if (isinstance(a, Ext) or isinstance(b, Ext)) and not isinstance(op, (ast.Is, ast.IsNot)):
            r = a.cx_cmp(self, op, b, False) if isinstance(a, Ext) else NotImplemented
            if r is NotImplemented and isinstance(b, Ext):
                r = b.cx_cmp(self, op, a, True)
            if r is NotImplemented:
                raise Unsupported(f'{type(op).__name__} comparison on extension value')
            return r
        if isinstance(op, (ast.Is, ast.IsNot)):
            if a is None or b is None:
                other = b if a is None else a
                if isinstance(other, Opaque):
                    r = self.ctx.fresh_bool('isnone')
                else:
                    r = other is None
            else:
                if is_sym(a) or is_sym(b):
                    # `x is True/False` on a symbolic boolean; numbers are never identical to a bool constant
                    u, w = (a, b) if is_sym(a) else (b, a)
                    if isinstance(w, bool) and z3.is_bool(u):
                        r = (u == w)
                    elif isinstance(w, bool):
                        r = False
                    else:
                        raise Unsupported('identity test on a symbolic number')
                else:
                    r = a is b or (type(a) is type(b) and isinstance(a, (bool, str, int)) and a == b)
            if isinstance(r, bool):
                return r if isinstance(op, ast.Is) else not r
            return r if isinstance(op, ast.Is) else z3.Not(r)
        if isinstance(op, (ast.In, ast.NotIn)):
            r = self.contains(b, a)
            if isinstance(r, bool):
                return r if isinstance(op, ast.In) else not r
            return r if isinstance(op, ast.In) else z3.Not(r)
        if isinstance(a, Vec) or isinstance(b, Vec):
            if isinstance(a, Vec) and isinstance(b, Vec):
                return Vec(self.cmp(op, x, y, node) for x, y in zip(a, b))
            if isinstance(a, Vec):
                return Vec(self.cmp(op, x, b, node) for x in a)
            return Vec(self.cmp(op, a, y, node) for y in b)
        for u, w, flip in ((a, b, False), (b, a, True)):
            if isinstance(u, float) and u in (float('inf'), float('-inf')) and (is_sym(w) or isinstance(w, (int, float))) \
                    and not (isinstance(w, float) and w != w):
                if is_sym(w) or w not in (float('inf'), float('-inf')):
                    big = (u > 0)
                    # w (finite)  vs  u (infinite)
                    t = type(op)
                    if t is ast.Eq:
                        return False
                    if t is ast.NotEq:
                        return True
                    less = (t in (ast.Lt, ast.LtE))          # "left < right" asked
                    left_is_inf = not flip
                    if left_is_inf:
                        return (not big) if less else big
                    return big if less else (not big)
        if isinstance(a, Opaque) or isinstance(b, Opaque) or isinstance(a, NDArr) or isinstance(b, NDArr):
            if isinstance(a, NDArr) or isinstance(b, NDArr):
                pred = None
                arr, other, flip = (a, b, False) if isinstance(a, NDArr) else (b, a, True)
                if isinstance(other, (int, float)) and not isinstance(other, bool):
                    opn = type(op).__name__
                    if flip:
                        opn = dict(Lt='Gt', Gt='Lt', LtE='GtE', GtE='LtE').get(opn, opn)
                    pred = ('cmp', opn, float(other), arr.store.uid, arr.store.version)
                elif isinstance(other, Opaque) and getattr(other, 'elem_of', None) is not None:
                    opn = type(op).__name__
                    if flip:
                        opn = dict(Lt='Gt', Gt='Lt', LtE='GtE', GtE='LtE').get(opn, opn)
                    pred = ('cmpelem', opn, (other.elem_of[0].uid, other.elem_of[1]), arr.store.uid, repr(arr.view))
                bval = None
                if arr.store.val is not None and not isinstance(other, (Opaque, NDArr)) and (is_sym(other) or isinstance(other, (int, float))) \
                        and not (isinstance(other, float) and (other != other or abs(other) == float('inf'))):
                    try:
                        x_, y_ = num_pair(arr.store.val, other)
                        if flip:
                            x_, y_ = y_, x_
                        bval = {ast.Eq: lambda: x_ == y_, ast.NotEq: lambda: x_ != y_, ast.Lt: lambda: x_ < y_, ast.LtE: lambda: x_ <= y_,
                                ast.Gt: lambda: x_ > y_, ast.GtE: lambda: x_ >= y_}[type(op)]()
                    except Exception:
                        bval = None
                return taint(NDArr(Store(f'fresh@{getattr(node, "lineno", 0)}', bval), dtype='bool', pred=pred), [a, b])
            return self.ctx.fresh_bool('cmp')
        if not is_sym(a) and not is_sym(b):
            try:
                return {ast.Eq: lambda: a == b, ast.NotEq: lambda: a != b, ast.Lt: lambda: a < b,
                        ast.LtE: lambda: a <= b, ast.Gt: lambda: a > b, ast.GtE: lambda: a >= b}[type(op)]()
            except TypeError:
                raise _Raise(ExcVal('TypeError'))
        if isinstance(a, (str, type(None), tuple, list)) or isinstance(b, (str, type(None), tuple, list)):
            # symbolic number vs non-number: never equal
            if isinstance(op, ast.Eq):
                return False
            if isinstance(op, ast.NotEq):
                return True
            raise _Raise(ExcVal('TypeError'))
        a, b = R(a), R(b)
        if z3.is_bool(a) and z3.is_bool(b):
            return {ast.Eq: lambda: a == b, ast.NotEq: lambda: a != b}[type(op)]()
        a, b = num_pair(a, b)
        return {ast.Eq: lambda: a == b, ast.NotEq: lambda: a != b, ast.Lt: lambda: a < b,
                ast.LtE: lambda: a <= b, ast.Gt: lambda: a > b, ast.GtE: lambda: a >= b}[type(op)]()

    def contains(self, cont, x):
        if isinstance(cont, Opaque) or isinstance(x, Opaque):
            return self.ctx.fresh_bool('in')
        if isinstance(cont, dict):
            if is_sym(x):
                raise Unsupported('symbolic key membership')
            return x in cont
        if isinstance(cont, (list, tuple, set)):
            if not is_sym(x) and all(not is_sym(c) and not isinstance(c, (Opaque, Obj)) for c in cont):
                return x in cont
            alts = []
            for c in cont:
                e = self.cmp(ast.Eq(), x, c)
                if e is True:
                    return True
                if e is not False:
                    alts.append(e)
            return z3.Or(*alts) if alts else False
        if isinstance(cont, str) and isinstance(x, str):
            return x in cont
        if isinstance(cont, Obj) and isinstance(cont.fields.get('__items__'), dict) and not is_sym(x):
            return x in cont.fields['__items__']
        return self.ctx.fresh_bool('in')

    def ev_Attribute(self, n, env):
        return self.getattr(self.ev(n.value, env), n.attr, n)

    def getattr(self, v, attr, node=None):
        if isinstance(v, SuperProxy):
            order = self.mro(v.obj.mod, v.obj.cls)
            if (v.mod, v.cname) not in order:
                raise Unsupported(f'super(): {v.mod}.{v.cname} is not in the method resolution order of {v.obj.cls}')
            for m_, c_ in order[order.index((v.mod, v.cname)) + 1:]:
                cnode, _, _ = intake.func(f'{m_}.{c_}')
                for b in cnode.body:
                    if isinstance(b, ast.FunctionDef) and b.name == attr and not b.decorator_list:
                        sub = self if m_ == self.mod else Interp(self.ctx, m_)
                        return Closure(b, {}, sub, qualname=f'{m_}.{c_}.{attr}', self_obj=v.obj)
            if attr == '__init__':
                return LibFn('object.__init__')        # object.__init__(self): nothing to do
            raise Unsupported(f'super().{attr}: not a plain method of a repo base class')
        if isinstance(v, Ext):
            r = v.cx_getattr(self, attr)
            if r is NotImplemented:
                raise Unsupported(f'attribute {attr} of extension value')
            return r
        if isinstance(v, Obj):
            if attr in v.fields:
                return v.fields[attr]
            if attr == '__class__':
                return Obj('type', {'__name__': v.cls})
            hook = self.ctx.opts.get('getattr_hook')
            if hook is not None:
                r = hook(self, v, attr)
                if r is not NotImplemented:
                    return r
            meth = self.find_method(v, attr)
            if meth is not None:
                fnode, mod, cname, is_prop = meth
                clo = Closure(fnode, {}, Interp(self.ctx, mod) if mod != self.mod else self,
                              qualname=f'{mod}.{cname}.{attr}', self_obj=v)
                if is_prop:
                    return self.call(clo, [], {}, node)
                return clo
            if attr in v.fields.get('__unmodelled__', ()):
                # the real constructor sets this attribute, the contract's abstract state does not model it: nothing can be concluded
                raise Unsupported(f'attribute {attr!r} of {v.cls} is set by its constructor but is not part of the abstract pre-state of the contract')
            if v.fields.get('__strict__'):
                raise _Raise(ExcVal('AttributeError', (attr,)))
            o = Opaque(f'{v.cls}.{attr}')
            v.fields[attr] = o
            return o
        if isinstance(v, ModRef):
            if v.name.startswith('emg3d.'):
                sub = v.name.split('.', 1)[1].replace('.', '/')
                try:
                    node, _, _ = intake.func(f'{sub}.{attr}')
                except (intake.IntakeError, FileNotFoundError):
                    return Opaque(f'{v.name}.{attr}')
                if isinstance(node, ast.ClassDef):
                    return ClassRef(sub, attr)
                return ('repo', sub, attr)
            if v.name == 'emg3d':
                return ModRef('emg3d.' + attr)
            if v.name in ('numpy', 'np') and attr == 'newaxis':
                return None                      # np.newaxis is None
            if v.name in ('numpy', 'np', 'math') and attr in ('inf', 'pi', 'nan', 'e'):
                import math
                return dict(inf=math.inf, pi=math.pi, nan=math.nan, e=math.e)[attr]
            return LibFn(f'{v.name}.{attr}')
        if isinstance(v, LibFn):
            from . import prelude
            full = f'{v.name}.{attr}'
            for a_, b_ in (('numpy.', 'np.'), ('scipy.', 'sp.')):
                if full.startswith(a_):
                    full = b_ + full[len(a_):]
            if full in prelude.CONSTS:
                return prelude.CONSTS[full]
            return LibFn(f'{v.name}.{attr}')
        if isinstance(v, DArr):
            if attr in ('data', 'values', 'loc'):
                return NDArr(v.store, view=v.view, dtype=v.dtype)
            if attr == 'attrs':
                return v.attrs
            if attr in ('real', 'imag', 'T'):
                return DArr(v.store, view=attr, dtype=v.dtype)
            if attr in ('shape', 'size', 'ndim', 'dims', 'coords'):
                return Opaque('dataarray.' + attr)
            return LibFn('dataarray.' + attr, bound=v)
        if isinstance(v, NDArr):
            if attr == 'data' and getattr(v, 'plain', False):
                # a NumPy scalar or ndarray that certainly is not an xarray object (e.g. loaded from a file): .data is a view of its MEMORY
                return Opaque('memoryview of a plain NumPy value')
            if attr in ('data', 'values'):
                return v                    # (xarray .loc[...] views evaluate to plain arrays here: .data is the array itself)
            if attr in ('real', 'imag', 'T', 'flat'):
                return NDArr(v.store, view=attr)
            if attr == 'dtype' and v.dtype is not None:
                return v.dtype
            if attr in ('shape', 'size', 'ndim', 'dtype'):
                return Opaque('arr.' + attr)
            return LibFn('ndarray.' + attr, bound=v)
        if isinstance(v, OptionalModule):
            return LibFn(f'{v.modname}.{attr}')
        if isinstance(v, Opaque):
            return Opaque(f'{v.tag}.{attr}', [v])
        if isinstance(v, tuple) and len(v) == 3 and v[0] == 'repo':
            return Opaque(f'function-attribute {v[2]}.{attr}')
        if isinstance(v, Vec) and attr in ('size', 'shape', 'ndim'):
            return {'size': len(v), 'shape': (len(v),), 'ndim': 1}[attr]
        if isinstance(v, (str, list, dict, tuple, set)):
            return LibFn(f'{"list" if isinstance(v, Vec) else type(v).__name__}.{attr}', bound=v)
        if isinstance(v, ClassRef):
            return ('classattr', v, attr)
        if isinstance(v, tuple) and len(v) == 3 and v[0] == 'repo':
            raise Unsupported('attribute of function')
        if is_sym(v):
            return LibFn('number.' + attr, bound=v)
        if v is None:
            raise _Raise(ExcVal('AttributeError', (f"'NoneType' object has no attribute '{attr}'",)))
        raise Unsupported(f'attribute {attr} of {type(v).__name__}')

    def repo_bases(self, mod, cname):
        """the base classes of a repo class that are repo classes themselves, in the order written"""
        try:
            cnode, _, _ = intake.func(f'{mod}.{cname}')
        except intake.IntakeError:
            return []
        out = []
        menv = self.module_env(mod)
        for base in getattr(cnode, 'bases', []):
            bn = base.id if isinstance(base, ast.Name) else (base.attr if isinstance(base, ast.Attribute) else None)
            if bn and isinstance(menv.get(bn), ClassRef):
                out.append((menv[bn].mod, menv[bn].name))
            elif bn and isinstance(menv.get(bn), tuple) and menv[bn][0] == 'repo':
                out.append((menv[bn][1], menv[bn][2]))
            elif isinstance(base, ast.Attribute) and isinstance(base.value, ast.Name):
                r = menv.get(base.value.id)
                if isinstance(r, ModRef) and r.name.startswith('emg3d.'):
                    out.append((r.name.split('.', 1)[1], base.attr))
        return out

    def mro(self, mod, cname):
        """C3 linearisation over the repo classes (third-party bases are left out)"""
        if mod is None:
            return []
        seqs = [self.mro(m_, c_) for m_, c_ in self.repo_bases(mod, cname)] + [list(self.repo_bases(mod, cname))]
        out = [(mod, cname)]
        seqs = [list(x) for x in seqs if x]
        while seqs:
            for sq in seqs:
                head = sq[0]
                if not any(head in other[1:] for other in seqs):
                    break
            else:
                raise Unsupported(f'inconsistent class hierarchy of {mod}.{cname}')
            out.append(head)
            seqs = [[x for x in sq if x != head] for sq in seqs]
            seqs = [sq for sq in seqs if sq]
        return out

    def find_method(self, obj, name):
        """method or property of a repo class, looked up along its method resolution order"""
        for mod, cname in self.mro(obj.mod, obj.cls)[:12]:
            try:
                cnode, _, _ = intake.func(f'{mod}.{cname}')
            except intake.IntakeError:
                return None
            for b in getattr(cnode, 'body', []):
                if isinstance(b, ast.FunctionDef) and b.name == name:
                    is_prop = any((isinstance(d, ast.Name) and d.id == 'property') for d in b.decorator_list)
                    is_setter = any(isinstance(d, ast.Attribute) and d.attr == 'setter' for d in b.decorator_list)
                    if is_setter:
                        continue
                    return b, mod, cname, is_prop
        return None

    def find_setter(self, obj, name):
        mod, cname = obj.mod, obj.cls
        if mod is None:
            return None
        try:
            cnode, _, _ = intake.func(f'{mod}.{cname}')
        except intake.IntakeError:
            return None
        for b in cnode.body:
            if isinstance(b, ast.FunctionDef) and b.name == name and \
                    any(isinstance(d, ast.Attribute) and d.attr == 'setter' for d in b.decorator_list):
                return b, mod, cname
        return None

    def ev_Subscript(self, n, env):
        v = self.ev(n.value, env)
        if isinstance(n.slice, ast.Slice):
            lo = self.ev(n.slice.lower, env) if n.slice.lower else None
            hi = self.ev(n.slice.upper, env) if n.slice.upper else None
            st = self.ev(n.slice.step, env) if n.slice.step else None
            if isinstance(v, Ext):
                return self.getitem(v, slice(lo, hi, st), n)
            if isinstance(v, (list, tuple, str)) and all(not is_sym(x) and not isinstance(x, Opaque) for x in (lo, hi, st)):
                return v[slice(lo, hi, st)]
            if isinstance(v, NDArr):
                return NDArr(v.store, view=('slice', lo, hi, st, v.view))
            return Opaque('slice')
        k = self.ev(n.slice, env)
        if isinstance(v, NDArr) and (isinstance(k, slice) or (isinstance(k, tuple) and any(isinstance(x, slice) for x in k))):
            return NDArr(v.store, view=('index', k, v.view), dtype=v.dtype)
        return self.getitem(v, k, n)

    def getitem(self, v, k, node=None):
        if isinstance(v, Ext):
            r = v.cx_getitem(self, k)
            if r is NotImplemented:
                raise Unsupported('subscript of extension value')
            return r
        if isinstance(v, dict):
            if is_sym(k) or isinstance(k, Opaque):
                raise Unsupported('symbolic dict key')
            if k not in v:
                raise _Raise(ExcVal('KeyError', (k,)))
            return v[k]
        if isinstance(v, (list, tuple, str)):
            if isinstance(k, Opaque):
                return Opaque('item')
            if is_sym(k):
                ks = z3.simplify(k)
                if z3.is_int_value(ks):
                    k = ks.as_long()
                else:
                    # fork over the feasible positions
                    for i in range(len(v)):
                        if self.ctx.branch(k == i, 'index'):
                            return v[i]
                    raise _Raise(ExcVal('IndexError'))
            try:
                return Vec(v[k]) if isinstance(v, Vec) and isinstance(k, slice) else v[k]
            except (IndexError, TypeError):
                raise _Raise(ExcVal('IndexError'))
        if isinstance(v, NDArr):
            if isinstance(k, NDArr):
                # advanced (boolean-mask) indexing copies; the generic element keeps its value, the mask is remembered
                r_ = NDArr(Store(f'fresh@{getattr(node, "lineno", 0)}', v.store.val if k.dtype == 'bool' else None))
                r_.mask_of = (v, k)
                return taint(r_, [v, k])
            if isinstance(k, tuple) and any(isinstance(x, NDArr) for x in k):
                # advanced indexing with an index / mask array in one position (a[idx, :]): a COPY of the selected rows.  With a mask the generic
                # element keeps its value; which rows an index array selects (and how often) is not known: the contents are unknown
                idx = [x for x in k if isinstance(x, NDArr)]
                r_ = NDArr(Store(f'fresh@{getattr(node, "lineno", 0)}', v.store.val if all(x.dtype == 'bool' for x in idx) else None))
                r_.mask_of = (v, k)
                return taint(r_, [v] + idx)
            if isinstance(k, tuple) and any(isinstance(x, (slice, type(Ellipsis))) or x is None for x in k):
                return NDArr(v.store, view=('index', k, v.view), dtype=v.dtype)
            o = Opaque(f'{v.store.origin}[{k}]')
            o.tags |= set(v.store.deps)
            o.elem_of = (v.store, k)
            return o
        if isinstance(v, Obj):
            hook = self.ctx.opts.get('getitem_hook')
            if hook is not None:
                r = hook(self, v, k)
                if r is not NotImplemented:
                    return r
            items = v.fields.get('__items__')
            if isinstance(items, dict) and not is_sym(k) and not isinstance(k, Opaque):
                if k in items:
                    return items[k]
                if v.fields.get('__strict__'):
                    raise _Raise(ExcVal('KeyError', (k,)))
                o = Opaque(f'{v.cls}[{k!r}]')
                items[k] = o
                return o
            return Opaque(f'{v.cls}[]')
        if isinstance(v, Opaque):
            return Opaque(f'{v.tag}[]', [v])
        if isinstance(v, LibFn):
            if v.name.endswith(('.r_', '.c_')):
                # np.r_[...] builds a new array from its items
                parts = list(k) if isinstance(k, tuple) else [k]
                if v.name.endswith('.r_') and any(isinstance(x, Ext) for x in parts) and 'np.r_' in self.ctx.opts.get('prelude', {}):
                    return self.ctx.opts['prelude']['np.r_'](self, parts)
                if v.name.endswith('.r_') and all(isinstance(x, Vec) or (isinstance(x, (int, float)) and not isinstance(x, bool))
                                                  or (is_sym(x) and not z3.is_bool(x)) for x in parts):
                    out = Vec()
                    for x in parts:
                        out.extend(x if isinstance(x, Vec) else [x])
                    if len(out) <= 16:
                        return out
                return taint(NDArr(Store(f'fresh@{getattr(node, "lineno", 0)}', None)), list(k) if isinstance(k, tuple) else [k])
            return Opaque(f'{v.name}[]')
        raise Unsupported(f'subscript of {type(v).__name__}')

    # comprehensions over concrete iterables
    def comp_iter(self, gens, env, body):
        def rec(i, env):
            if i == len(gens):
                body(env)
                return
            g = gens[i]
            for x in self.iterate(self.ev(g.iter, env), g.iter):
                e2 = dict(env)
                self.bind_target(g.target, x, e2)
                if all(self.truth(self.ev(c, e2)) for c in g.ifs):
                    rec(i + 1, e2)
        rec(0, env)

    def ev_ListComp(self, n, env):
        out = []
        self.comp_iter(n.generators, env, lambda e: out.append(self.ev(n.elt, e)))
        return out

    ev_GeneratorExp = ev_ListComp

    def ev_SetComp(self, n, env):
        return set(self.ev_ListComp(n, env))

    def ev_DictComp(self, n, env):
        out = {}
        self.comp_iter(n.generators, env, lambda e: out.__setitem__(self.ev(n.key, e), self.ev(n.value, e)))
        return out

    def ev_Slice(self, n, env):
        return slice(self.ev(n.lower, env) if n.lower is not None else None,
                     self.ev(n.upper, env) if n.upper is not None else None,
                     self.ev(n.step, env) if n.step is not None else None)

    def ev_Starred(self, n, env):
        raise Unsupported('starred')

    def iterate(self, v, node=None):
        if isinstance(v, (list, tuple, set, str)):
            return list(v)
        if isinstance(v, dict):
            return list(v.keys())
        if isinstance(v, range):
            return list(v)
        if isinstance(v, Obj) and '__iter__' in v.fields:
            return list(v.fields['__iter__'])
        if isinstance(v, Ext):
            r = v.cx_iter(self)
            if r is NotImplemented:
                raise Unsupported(f'iteration over extension value (line {getattr(node, "lineno", "?")})')
            return list(r)
        if isinstance(v, NDArr):
            # rows of an array of unknown length: one representative row (provenance / aliasing only)
            self.ctx.event('iterate-array', store=v.store)
            return [NDArr(v.store, view=('row', v.view), dtype=v.dtype)]
        raise Unsupported(f'iteration over {v!r} (line {getattr(node, "lineno", "?")})')

    # ------------------------------------------------ calls
    def ev_Call(self, n, env):
        if isinstance(n.func, ast.Name) and n.func.id == 'super' and 'super' not in env:
            # zero-argument super() inside a method of a repo class: the next classes in the method resolution order of type(self)
            me = env.get('__method_of__')
            if n.args or n.keywords or me is None or not isinstance(me[0], Obj):
                raise Unsupported('super() outside a method of a repo class, or with arguments')
            return SuperProxy(me[0], me[1], me[2])
        f = self.ev(n.func, env)
        args = []
        for a in n.args:
            if isinstance(a, ast.Starred):
                args.extend(self.iterate(self.ev(a.value, env)))
            else:
                args.append(self.ev(a, env))
        kwargs = {}
        for k in n.keywords:
            if k.arg is None:
                d = self.ev(k.value, env)
                if isinstance(d, dict):
                    kwargs.update(d)
                else:
                    kwargs['**'] = d
            else:
                kwargs[k.arg] = self.ev(k.value, env)
        return self.call(f, args, kwargs, n)

    def call(self, f, args, kwargs, node=None):
        ctx = self.ctx
        if isinstance(f, Closure):
            return self.call_closure(f, args, kwargs, node)
        if isinstance(f, tuple) and len(f) == 3 and f[0] == 'repo':
            _, mod, name = f
            q = f'{mod}.{name}'
            if q in ctx.summaries:
                ctx.event('call', name=q, args=args, kwargs=kwargs, line=getattr(node, 'lineno', 0))
                return ctx.summaries[q](self, args, kwargs, node)
            try:
                fnode, _, _ = intake.func(q)
            except intake.IntakeError:
                raise Unsupported(f'cannot resolve {q}')
            if isinstance(fnode, ast.ClassDef):
                return self.instantiate(ClassRef(mod, name), args, kwargs, node)
            ctx.event('call', name=q, args=args, kwargs=kwargs, line=getattr(node, 'lineno', 0), inlined=True)
            sub = self if mod == self.mod else Interp(ctx, mod)
            return sub.call_closure(Closure(fnode, {}, sub, qualname=q), args, kwargs, node)
        if isinstance(f, ClassRef):
            return self.instantiate(f, args, kwargs, node)
        if isinstance(f, LocalClass):
            obj = Obj(f.node.name, mod=None)
            ctx.event('new', cls='local:' + f.node.name, obj=obj)
            for b in f.node.body:
                if isinstance(b, ast.FunctionDef) and b.name == '__init__':
                    f.interp.call_closure(Closure(b, dict(f.env), f.interp, self_obj=obj), args, kwargs, node)
            return obj
        if isinstance(f, LibFn):
            return self.libcall(f, args, kwargs, node)
        if isinstance(f, ModRef):
            raise Unsupported('calling a module')
        if isinstance(f, Opaque):
            ctx.event('call', name=f'opaque:{f.tag}', args=args, kwargs=kwargs, line=getattr(node, 'lineno', 0))
            return taint(Opaque(f'{f.tag}()', [f]), list(args) + list(kwargs.values()))
        if isinstance(f, tuple) and f and f[0] == 'classattr':
            _, cref, attr = f
            q = f'{cref.mod}.{cref.name}.{attr}'
            if q in ctx.summaries:
                ctx.event('call', name=q, args=args, kwargs=kwargs, line=getattr(node, 'lineno', 0))
                return ctx.summaries[q](self, [cref] + list(args), kwargs, node)
            raise Unsupported(f'class attribute call {q}')
        raise Unsupported(f'call of {f!r}')

    def call_closure(self, clo, args, kwargs, node=None):
        ctx = self.ctx
        fn = clo.node
        it = clo.interp
        if ctx.depth > ctx.opts.get('max_depth', 12):
            raise Unsupported('inlining depth')
        q = clo.qualname
        if q and q in ctx.summaries and not ctx.opts.get('_in_summary') == q:
            ctx.event('call', name=q, args=([clo.self_obj] if clo.self_obj is not None else []) + list(args),
                      kwargs=kwargs, line=getattr(node, 'lineno', 0))
            return ctx.summaries[q](self, ([clo.self_obj] if clo.self_obj is not None else []) + list(args), kwargs, node)
        if q:
            ctx.event('call_inlined', name=q, args=list(args), kwargs=dict(kwargs), self_obj=clo.self_obj, line=getattr(node, 'lineno', 0))
        env = dict(clo.env)
        if clo.self_obj is not None and q and q.count('.') >= 2:
            env['__method_of__'] = (clo.self_obj, q.split('.')[0], q.split('.')[1])
        a = fn.args
        params = [p.arg for p in a.args]
        allargs = ([clo.self_obj] if clo.self_obj is not None else []) + list(args)
        defaults = [None] * (len(params) - len(a.defaults)) + list(a.defaults)
        kw = dict(kwargs)
        for i, p in enumerate(params):
            if i < len(allargs):
                env[p] = allargs[i]
            elif p in kw:
                env[p] = kw.pop(p)
            elif defaults[i] is not None:
                env[p] = it.ev(defaults[i], dict(clo.env))
            else:
                raise _Raise(ExcVal('TypeError', (f'missing argument {p}',)))
        if len(allargs) > len(params):
            if a.vararg is None:
                raise _Raise(ExcVal('TypeError', ('too many positional arguments',)))
            env[a.vararg.arg] = tuple(allargs[len(params):])
        elif a.vararg is not None:
            env[a.vararg.arg] = ()
        for p, d in zip(a.kwonlyargs, a.kw_defaults):
            if p.arg in kw:
                env[p.arg] = kw.pop(p.arg)
            elif d is not None:
                env[p.arg] = it.ev(d, {})
            else:
                raise _Raise(ExcVal('TypeError', (f'missing keyword argument {p.arg}',)))
        if a.kwarg is not None:
            env[a.kwarg.arg] = kw
        elif kw:
            raise _Raise(ExcVal('TypeError', (f'unexpected keyword argument {sorted(kw)[0]}',)))
        if isinstance(fn, ast.Lambda):
            return it.ev(fn.body, env)
        ctx.depth += 1
        try:
            it.exec_block(intake.strip_doc(fn.body), env)
        except _Return as r:
            return r.value
        finally:
            ctx.depth -= 1
        return None

    def instantiate(self, cref, args, kwargs, node=None):
        ctx = self.ctx
        if cref.mod == 'builtins':
            return ExcVal(cref.name, tuple(args))
        q = f'{cref.mod}.{cref.name}'
        if q in ctx.summaries:
            ctx.event('call', name=q, args=args, kwargs=kwargs, line=getattr(node, 'lineno', 0))
            return ctx.summaries[q](self, args, kwargs, node)
        cnode, _, _ = intake.func(q)
        # exception classes defined in the repo
        if any((isinstance(b, ast.Name) and (b.id.endswith('Error') or b.id == 'Exception')) for b in cnode.bases):
            return ExcVal(cref.name, tuple(args))
        obj = Obj(cref.name, mod=cref.mod)
        obj.fields['__strict__'] = True
        is_dc = any((isinstance(d, ast.Name) and d.id == 'dataclass') or (isinstance(d, ast.Attribute) and d.attr == 'dataclass')
                    or (isinstance(d, ast.Call) and 'dataclass' in ast.unparse(d.func)) for d in cnode.decorator_list)
        ctx.event('new', cls=q, obj=obj)
        if is_dc:
            flds = [b for b in cnode.body if isinstance(b, ast.AnnAssign)]
            vals = list(args)
            kw = dict(kwargs)
            sub = self if cref.mod == self.mod else Interp(ctx, cref.mod)
            for i, fdef in enumerate(flds):
                nm = fdef.target.id
                if i < len(vals):
                    obj.fields[nm] = vals[i]
                elif nm in kw:
                    obj.fields[nm] = kw.pop(nm)
                elif fdef.value is not None:
                    obj.fields[nm] = sub.ev(fdef.value, {})
                else:
                    raise _Raise(ExcVal('TypeError', (f'missing field {nm}',)))
            if kw:
                raise _Raise(ExcVal('TypeError', (f'unexpected keyword argument {sorted(kw)[0]}',)))
            pi = self.find_method(obj, '__post_init__')
            if pi is not None:
                self.call(self.getattr(obj, '__post_init__'), [], {}, node)
            return obj
        init = self.find_method(obj, '__init__')
        if init is not None:
            self.call(self.getattr(obj, '__init__'), args, kwargs, node)
        return obj

    def libcall(self, f, args, kwargs, node=None):
        from . import prelude
        name = f.name
        for a, b in (('numpy.', 'np.'), ('scipy.', 'sp.')):
            if name.startswith(a):
                name = b + name[len(a):]
        f = LibFn(name, f.bound)
        h = self.ctx.opts.get('prelude', {}).get(name) or prelude.TABLE.get(name)
        srcs = list(args) + list(kwargs.values()) + ([f.bound] if f.bound is not None else [])
        if h is not None:
            r = h(self, f, args, kwargs, node)
            if isinstance(r, NDArr) and any(isinstance(a_, NDArr) and a_.store is r.store for a_ in srcs):
                return r            # a view of / the argument itself
            return taint(r, srcs) if isinstance(r, (NDArr, Opaque)) else r
        self.ctx.event('libcall', name=name, args=args, kwargs=kwargs, line=getattr(node, 'lineno', 0))
        return taint(Opaque(name + '()'), srcs)

    # ------------------------------------------------ statements
    def exec_block(self, stmts, env):
        for s in stmts:
            m = getattr(self, 'st_' + type(s).__name__, None)
            if m is None:
                raise Unsupported(f'statement {type(s).__name__} (line {s.lineno})')
            m(s, env)

    def st_Pass(self, s, env):
        pass

    def st_Expr(self, s, env):
        if not isinstance(s.value, ast.Constant):
            self.ev(s.value, env)

    def st_Return(self, s, env):
        raise _Return(self.ev(s.value, env) if s.value is not None else None)

    def st_Import(self, s, env):
        for a in s.names:
            env[a.asname or a.name.split('.')[0]] = ModRef(a.name)

    def st_ImportFrom(self, s, env):
        for a in s.names:
            if s.module == 'emg3d':
                env[a.asname or a.name] = ModRef('emg3d.' + a.name)
            elif s.module and s.module.startswith('emg3d.'):
                env[a.asname or a.name] = ('repo', s.module.split('.', 1)[1].replace('.', '/'), a.name)
            else:
                env[a.asname or a.name] = LibFn(f'{s.module}.{a.name}')

    def st_FunctionDef(self, s, env):
        env[s.name] = Closure(s, env, self, qualname=None)

    def st_ClassDef(self, s, env):
        env[s.name] = LocalClass(s, self, env)

    def st_Global(self, s, env):
        pass

    st_Nonlocal = st_Global

    def st_Assert(self, s, env):
        if not self.truth(self.ev(s.test, env)):
            raise _Raise(ExcVal('AssertionError'))

    def st_Delete(self, s, env):
        for t in s.targets:
            if isinstance(t, ast.Attribute):
                o = self.ev(t.value, env)
                if isinstance(o, Obj):
                    o.fields.pop(t.attr, None)
                    self.ctx.event('delattr', obj=o, attr=t.attr)
            elif isinstance(t, ast.Subscript):
                o = self.ev(t.value, env)
                k = self.ev(t.slice, env)
                if isinstance(o, dict):
                    o.pop(k, None)
                elif isinstance(o, Obj) and isinstance(o.fields.get('__items__'), dict):
                    o.fields['__items__'].pop(k, None)
                    self.ctx.event('delitem', obj=o, key=k)
            elif isinstance(t, ast.Name):
                env.pop(t.id, None)

    def st_Raise(self, s, env):
        if s.exc is None:
            raise _Raise(env.get('__active_exc__') or ExcVal('Exception'))
        v = self.ev(s.exc, env)
        if isinstance(v, ClassRef):
            v = ExcVal(v.name)
        if isinstance(v, tuple) and len(v) == 3 and v[0] == 'repo':
            v = ExcVal(v[2])
        if not isinstance(v, ExcVal):
            v = ExcVal('Exception', (v,))
        raise _Raise(v)

    def st_Try(self, s, env):
        try:
            try:
                self.exec_block(s.body, env)
            except _Raise as r:
                for h in s.handlers:
                    if self.exc_matches(r.exc, h.type, env):
                        if h.name:
                            env[h.name] = r.exc
                        env['__active_exc__'] = r.exc
                        self.exec_block(h.body, env)
                        break
                else:
                    raise
            else:
                self.exec_block(s.orelse, env)
        finally:
            if s.finalbody:
                self.exec_block(s.finalbody, env)

    def exc_matches(self, exc, typ, env):
        if typ is None:
            return True
        names = []
        for t in (typ.elts if isinstance(typ, ast.Tuple) else [typ]):
            names.append(t.id if isinstance(t, ast.Name) else (t.attr if isinstance(t, ast.Attribute) else '?'))
        if 'Exception' in names or 'BaseException' in names:
            return True
        return exc.typ in names

    def st_With(self, s, env):
        for item in s.items:
            v = self.ev(item.context_expr, env)
            if item.optional_vars is not None:
                self.bind_target(item.optional_vars, v, env)
        self.exec_block(s.body, env)

    def st_If(self, s, env):
        if self.truth(self.ev(s.test, env), f'if@{s.lineno}'):
            self.exec_block(s.body, env)
        else:
            self.exec_block(s.orelse, env)

    def st_For(self, s, env):
        hook = self.ctx.opts.get('loop_hook')
        if hook is not None:
            r = hook(self, s, env)
            if r is not NotImplemented:
                return
        seq = self.iterate(self.ev(s.iter, env), s.iter)
        for x in seq:
            self.bind_target(s.target, x, env)
            try:
                self.exec_block(s.body, env)
            except _Break:
                break
            except _Continue:
                continue
        else:
            self.exec_block(s.orelse, env)

    def st_While(self, s, env):
        hook = self.ctx.opts.get('loop_hook')
        if hook is not None:
            r = hook(self, s, env)
            if r is not NotImplemented:
                return
        n = 0
        bound = self.ctx.opts.get('while_bound', 64)
        while self.truth(self.ev(s.test, env), f'while@{s.lineno}'):
            n += 1
            if n > bound:
                raise Unsupported(f'while loop at line {s.lineno} exceeds the unrolling bound {bound} without invariant')
            try:
                self.exec_block(s.body, env)
            except _Break:
                break
            except _Continue:
                continue

    def st_Break(self, s, env):
        raise _Break()

    def st_Continue(self, s, env):
        raise _Continue()

    def st_Assign(self, s, env):
        v = self.ev(s.value, env)
        for t in s.targets:
            self.bind_target(t, v, env, s)

    def st_AnnAssign(self, s, env):
        if s.value is not None:
            self.bind_target(s.target, self.ev(s.value, env), env, s)

    def st_AugAssign(self, s, env):
        cur = self.ev(s.target, env)
        rhs = self.ev(s.value, env)
        if isinstance(cur, NDArr):
            # numpy in-place semantics: the storage is mutated, the name keeps pointing at it
            vb = rhs.store.val if isinstance(rhs, NDArr) else rhs
            cur.store.val = self.pointwise(type(s.op).__name__, cur.store.val, vb)
            cur.store.version += 1
            cur.store.deps |= deps_of(rhs)
            self.ctx.event('mutate', store=cur.store, line=s.lineno, how=f'{type(s.op).__name__}=',
                           target=ast.unparse(s.target), arr=cur, value=rhs)
            return
        if isinstance(cur, list) and isinstance(s.op, ast.Add):
            cur.extend(self.iterate(rhs))
            return
        if isinstance(cur, Ext) and isinstance(s.target, (ast.Name, ast.Attribute)) and cur.cx_inplace(self, s.op, rhs) is not NotImplemented:
            return
        self.bind_target(s.target, self.binop(s.op, cur, rhs, s), env, s)

    def bind_target(self, t, v, env, node=None):
        if isinstance(t, ast.Name):
            env[t.id] = v
        elif isinstance(t, (ast.Tuple, ast.List)):
            if isinstance(v, NDArr) and not isinstance(v, Ext):
                # an array of unknown length unpacked into k names: k representative rows (its length is taken to be k -- anything else is a
                # ValueError of the code under contract, not a path of its own)
                self.ctx.event('iterate-array', store=v.store)
                vals = [NDArr(v.store, view=('row', v.view), dtype=v.dtype) for _ in t.elts]
            else:
                vals = self.iterate(v) if not isinstance(v, Opaque) else [Opaque('unpack') for _ in t.elts]
            if len(vals) != len(t.elts):
                raise _Raise(ExcVal('ValueError', ('unpack',)))
            for tt, vv in zip(t.elts, vals):
                self.bind_target(tt, vv, env, node)
        elif isinstance(t, ast.Attribute):
            o = self.ev(t.value, env)
            self.setattr(o, t.attr, v, node)
        elif isinstance(t, ast.Subscript):
            o = self.ev(t.value, env)
            if isinstance(t.slice, ast.Slice):
                k = slice(None)
            else:
                k = self.ev(t.slice, env)
            self.setitem(o, k, v, node)
        else:
            raise Unsupported('assignment target')

    def setattr(self, o, attr, v, node=None):
        if isinstance(o, Obj):
            st = self.find_setter(o, attr)
            if st is not None and not self.ctx.opts.get('no_setters'):
                fnode, mod, cname = st
                sub = self if mod == self.mod else Interp(self.ctx, mod)
                self.call_closure(Closure(fnode, {}, sub, qualname=f'{mod}.{cname}.{attr}.setter', self_obj=o), [v], {}, node)
                return
            o.fields[attr] = v
            self.ctx.event('setattr', obj=o, attr=attr, value=v, line=getattr(node, 'lineno', 0))
            return
        if isinstance(o, Opaque) or (isinstance(o, tuple) and len(o) == 3 and o[0] == 'repo'):
            self.ctx.event('setattr-opaque', obj=o, attr=attr, value=v, line=getattr(node, 'lineno', 0))
            return
        raise Unsupported(f'attribute store on {type(o).__name__}')

    def setitem(self, o, k, v, node=None):
        if isinstance(o, Ext):
            if o.cx_setitem(self, k, v) is NotImplemented:
                raise Unsupported('subscript store on extension value')
            self.ctx.event('ext-setitem', obj=o, key=k, value=v, line=getattr(node, 'lineno', 0))
            return
        if isinstance(o, dict):
            if is_sym(k) or isinstance(k, Opaque):
                raise Unsupported('symbolic dict key store')
            o[k] = v
            return
        if isinstance(o, list):
            if is_sym(k):
                raise Unsupported('symbolic list index store')
            if not isinstance(k, (int, slice)):
                raise Unsupported('list / small-array store with an index that is neither an integer nor a slice')
            o[k] = v
            return
        if isinstance(o, NDArr):
            whole = (isinstance(k, slice) and k == slice(None, None, None)) and o.view in ('whole', 'reshape', 'ravel')
            if whole and isinstance(v, (int, float)) and not isinstance(v, bool):
                o.store.val = z3.RealVal(repr(float(v)))       # a[:] = scalar
            elif whole and isinstance(v, NDArr):
                o.store.val = v.store.val                      # a[:] = other array (element-wise copy)
            else:
                o.store.val = None
            o.store.version += 1
            if whole:
                o.store.deps = set(deps_of(v))
            else:
                o.store.deps |= deps_of(v)
            self.ctx.event('mutate', store=o.store, line=getattr(node, 'lineno', 0), how='setitem', key=k, value=v,
                           target='', arr=o)
            return
        if isinstance(o, Obj):
            hook = self.ctx.opts.get('setitem_hook')
            if hook is not None:
                r = hook(self, o, k, v, node)
                if r is not NotImplemented:
                    return
            items = o.fields.setdefault('__items__', {})
            if isinstance(k, Opaque) or is_sym(k):
                self.ctx.event('setitem', obj=o, key=k, value=v, line=getattr(node, 'lineno', 0))
                return
            items[k] = v
            self.ctx.event('setitem', obj=o, key=k, value=v, line=getattr(node, 'lineno', 0))
            return
        if isinstance(o, Opaque):
            self.ctx.event('setitem-opaque', obj=o, key=k, value=v, line=getattr(node, 'lineno', 0))
            return
        raise Unsupported(f'subscript store on {type(o).__name__}')


BUILTINS = {'len', 'range', 'min', 'max', 'abs', 'int', 'float', 'str', 'bool', 'list', 'tuple', 'dict', 'set', 'zip',
            'enumerate', 'isinstance', 'getattr', 'setattr', 'hasattr', 'delattr', 'print', 'sum', 'any', 'all', 'sorted',
            'next', 'iter', 'map', 'type', 'round', 'complex', 'repr', 'reversed', 'super', 'id', 'callable', 'divmod', 'open'}


def run_function(qualname, make_args, pc0=(), summaries=None, opts=None, self_obj=None, max_paths=4000):
    """explore all paths of a repo function.  make_args(ctx) -> (args, kwargs, state) builds fresh
    argument objects for each path (objects are mutable, so each path needs its own)."""
    mod = qualname.split('.')[0]
    fnode, _, _ = intake.func(qualname)

    def run(ctx):
        it = Interp(ctx, mod)
        args, kwargs, state = make_args(ctx)
        so = None
        if isinstance(state, dict) and state.get('__self__') is not None:
            so = state['__self__']
        clo = Closure(fnode, {}, it, qualname=None, self_obj=so)
        try:
            v = it.call_closure(clo, args, kwargs)
            return 'return', v, state
        except _Raise as r:
            return 'raise', r.exc, state
        except _Stop as r:
            return 'stop', r.value, state
    return explore(run, pc0, summaries, opts, max_paths)
