"""Source intake: the verified text is the text under REPO (default /repo) as it is
in the working tree *now*.  Nothing is cached between runs.

qualified names:  'core.amat_x', 'solver.MGParameters._max_level',
                  'fields._point_vector.point_source'  (nested def)
What is dropped: decorators, docstrings, annotations (see DESIGN.md 2.1).
"""
import ast
import hashlib
import os

REPO = os.environ.get('VERIF_REPO', '/repo')

_cache = {}


class IntakeError(Exception):
    pass


def module_path(mod):
    return os.path.join(REPO, 'emg3d', *mod.split('/')) + '.py'


def module_ast(mod):
    path = module_path(mod)
    if path not in _cache:
        with open(path) as f:
            src = f.read()
        _cache[path] = (src, ast.parse(src))
    return _cache[path]


def _find(body, name):
    for n in body:
        if isinstance(n, (ast.FunctionDef, ast.ClassDef)) and n.name == name:
            return n
    # nested defs may sit inside if/for blocks of a function body
    for n in body:
        for sub in ast.walk(n):
            if sub is not n and isinstance(sub, (ast.FunctionDef, ast.ClassDef)) \
                    and sub.name == name:
                return sub
    return None


_fcache = {}


def func(qualname):
    """Return (FunctionDef|ClassDef node, source segment, sha256)."""
    key = (REPO, qualname)
    if key not in _fcache:         # per process, like _cache: the module text is read once per run, so the answer cannot change within a run
        _fcache[key] = _func(qualname)
    return _fcache[key]


def _func(qualname):
    parts = qualname.split('.')
    # module may be 'cli/parser'
    mod, rest = parts[0], parts[1:]
    src, tree = module_ast(mod)
    node = tree
    for p in rest:
        nxt = _find(node.body, p)
        if nxt is None:
            raise IntakeError(f'{qualname}: {p!r} not found in {module_path(mod)}')
        node = nxt
    seg = ast.get_source_segment(src, node)
    return node, seg, hashlib.sha256(seg.encode()).hexdigest()


def strip_doc(body):
    if body and isinstance(body[0], ast.Expr) and isinstance(body[0].value, ast.Constant) \
            and isinstance(body[0].value.value, str):
        return body[1:]
    return body


def loops_preorder(fn):
    """For/While nodes of a function in source (pre-)order; nested defs excluded."""
    out = []

    def walk(stmts):
        for s in stmts:
            if isinstance(s, (ast.FunctionDef, ast.ClassDef)):
                continue
            if isinstance(s, (ast.For, ast.While)):
                out.append(s)
                walk(s.body)
                walk(s.orelse)
            elif isinstance(s, ast.If):
                walk(s.body)
                walk(s.orelse)
            elif isinstance(s, (ast.With, ast.Try)):
                walk(s.body)
                for h in getattr(s, 'handlers', []):
                    walk(h.body)
                walk(getattr(s, 'orelse', []))
                walk(getattr(s, 'finalbody', []))
    walk(fn.body)
    return out


def hidden_state(qualname):
    """names of module-level MUTABLE containers (dict / list / set displays or constructor calls) that the body of the function -- for a class:
    of any of its methods -- refers to, names it declares global / nonlocal, and caching decorators on it.  A function that is specified as a
    function of its arguments (per-call contract) must not use any: such state survives the call and no contract sees it.
    Decorator arguments (evaluated once, at definition time) are not part of the body."""
    import ast
    fn, _, _ = func(qualname)
    mod = qualname.split('.')[0]
    tree = module_ast(mod)[1]
    mutable = set()
    for node in tree.body:
        tgts, val = [], None
        if isinstance(node, ast.Assign):
            tgts, val = node.targets, node.value
        elif isinstance(node, ast.AnnAssign) and node.value is not None:
            tgts, val = [node.target], node.value
        if val is None:
            continue
        is_mut = isinstance(val, (ast.Dict, ast.List, ast.Set, ast.DictComp, ast.ListComp, ast.SetComp)) or (
            isinstance(val, ast.Call) and ast.unparse(val.func).split('.')[-1] in ('dict', 'list', 'set', 'OrderedDict', 'defaultdict', 'deque', 'WeakValueDictionary'))
        if is_mut:
            for t_ in tgts:
                if isinstance(t_, ast.Name) and t_.id != '__all__':
                    mutable.add(t_.id)
    fns = [fn] if isinstance(fn, (ast.FunctionDef, ast.AsyncFunctionDef)) else [b for b in ast.walk(fn) if isinstance(b, (ast.FunctionDef, ast.AsyncFunctionDef))]
    used = set()
    for f in fns:
        local = {a.arg for a in f.args.args + f.args.kwonlyargs + f.args.posonlyargs}
        for stmt in f.body:
            for n in ast.walk(stmt):
                if isinstance(n, ast.Name) and n.id in mutable and n.id not in local:
                    used.add(n.id)
                if isinstance(n, (ast.Global, ast.Nonlocal)) and f is fn:
                    used.update(n.names)
                if isinstance(n, ast.Global) and f is not fn:
                    used.update(n.names)
        for d in f.decorator_list:
            txt = ast.unparse(d)
            if 'cache' in txt.lower() or 'memoize' in txt.lower():
                used.add('@' + txt)
    return used

