"""Source intake: the verified text is the text under REPO (default /repo) as it is
in the working tree *now*.  Nothing is cached between runs.

qualified names:  'core.amat_x', 'solver.MGParameters._max_level',
                  'fields._point_vector.point_source'  (nested def)
What is dropped: decorators, docstrings, annotations (see DESIGN.md 2.1).
"""
import ast
import hashlib
import os

REPO = os.environ.get('VERIF_REPO', '/repo')

_cache = {}


class IntakeError(Exception):
    pass


def module_path(mod):
    return os.path.join(REPO, 'emg3d', *mod.split('/')) + '.py'


def module_ast(mod):
    path = module_path(mod)
    if path not in _cache:
        with open(path) as f:
            src = f.read()
        _cache[path] = (src, ast.parse(src))
    return _cache[path]


def _find(body, name):
    for n in body:
        if isinstance(n, (ast.FunctionDef, ast.ClassDef)) and n.name == name:
            return n
    # nested defs may sit inside if/for blocks of a function body
    for n in body:
        for sub in ast.walk(n):
            if sub is not n and isinstance(sub, (ast.FunctionDef, ast.ClassDef)) \
                    and sub.name == name:
                return sub
    return None


_fcache = {}


def func(qualname):
    """Return (FunctionDef|ClassDef node, source segment, sha256)."""
    key = (REPO, qualname)
    if key not in _fcache:         # per process, like _cache: the module text is read once per run, so the answer cannot change within a run
        _fcache[key] = _func(qualname)
    return _fcache[key]


def _func(qualname):
    parts = qualname.split('.')
    # module may be 'cli/parser'
    mod, rest = parts[0], parts[1:]
    src, tree = module_ast(mod)
    node = tree
    for p in rest:
        nxt = _find(node.body, p)
        if nxt is None:
            raise IntakeError(f'{qualname}: {p!r} not found in {module_path(mod)}')
        node = nxt
    seg = ast.get_source_segment(src, node)
    return node, seg, hashlib.sha256(seg.encode()).hexdigest()


def strip_doc(body):
    if body and isinstance(body[0], ast.Expr) and isinstance(body[0].value, ast.Constant) \
            and isinstance(body[0].value.value, str):
        return body[1:]
    return body


def loops_preorder(fn):
    """For/While nodes of a function in source (pre-)order; nested defs excluded."""
    out = []

    def walk(stmts):
        for s in stmts:
            if isinstance(s, (ast.FunctionDef, ast.ClassDef)):
                continue
            if isinstance(s, (ast.For, ast.While)):
                out.append(s)
                walk(s.body)
                walk(s.orelse)
            elif isinstance(s, ast.If):
                walk(s.body)
                walk(s.orelse)
            elif isinstance(s, (ast.With, ast.Try)):
                walk(s.body)
                for h in getattr(s, 'handlers', []):
                    walk(h.body)
                walk(getattr(s, 'orelse', []))
                walk(getattr(s, 'finalbody', []))
    walk(fn.body)
    return out
