"""Generator self-test: canned edits of emsig/emg3d applied to a scratch copy (never to /repo).
   expect='violation': the edit breaks the property and the check of that property must exit 1 with a VIOLATION line;
   expect='held':      the edit does not change the behaviour the property talks about and the check must still exit 0.
kind='patch' (git apply of a stored diff: the seeded changes kept in seeded/, the reversed fix commits in selftest/regressions/)
or kind='regex' (one textual substitution in one file under emg3d/).  `only` restricts the run to matching tasks (speed)."""
import glob
import os

HERE = os.path.dirname(os.path.abspath(__file__))
ROOT = os.path.dirname(HERE)


def entries():
    out = []
    for p in sorted(glob.glob(os.path.join(ROOT, 'seeded', 'C*', 'patch.diff'))):
        sid = os.path.basename(os.path.dirname(p))
        prop = sid.split('_')[0]
        out.append(dict(prop=prop, name=f'seeded/{sid}', kind='patch', patch=os.path.relpath(p, ROOT), expect='violation'))
    for p in sorted(glob.glob(os.path.join(HERE, 'regressions', '*.diff'))):
        prop = os.path.basename(p).split('_')[0]
        out.append(dict(prop=prop, name='regression/' + os.path.basename(p)[:-5], kind='patch', patch=os.path.relpath(p, ROOT), expect='violation'))
    for p in sorted(glob.glob(os.path.join(HERE, 'harmless', '*.diff'))):
        prop, nm = os.path.basename(p)[:-5].split('__', 1)
        out.append(dict(prop=prop, name='harmless/' + nm, kind='patch', patch=os.path.relpath(p, ROOT), expect='held'))
    # semantics-preserving rewrites produced independently (fresh sub-agents given only the property record): the check must not raise an
    # alarm -- 'held' or 'undecided' are both acceptable outcomes (expect='no-alarm'), a VIOLATION is a false alarm
    for p in sorted(glob.glob(os.path.join(HERE, 'harmless_indep', '*.diff'))):
        prop, nm = os.path.basename(p)[:-5].split('__', 1)
        out.append(dict(prop=prop, name='harmless_indep/' + nm, kind='patch', patch=os.path.relpath(p, ROOT), expect='no-alarm'))
    R = lambda prop, name, file, pat, rep, expect, only=None, count=1: out.append(
        dict(prop=prop, name=name, kind='regex', file=file, pat=pat, rep=rep, expect=expect, only=only, count=count))
    # --- breaking edits
    R('C01', 'break/converged_at_ten_times_tol', 'solver.py', r'if l2_last < var\.tol\*var\.l2_refe:', 'if l2_last < 10*var.tol*var.l2_refe:', 'violation')
    R('C02', 'break/stencil_index_shift', 'core.py', r'izm = max\(0, iz-1\)', 'izm = max(0, iz-2)', 'violation')
    R('C03', 'break/y_lines_dropped_for_xyz', 'solver.py', r'if c_lr_dir in \[2, 4, 6, 7\]', 'if c_lr_dir in [2, 4, 6]', 'violation', only='dispatch')
    # core.solve for line lengths beyond the SSA proofs (n = 5*16+1 etc. behave the same): caught by the symbolic-n invariants
    R('C03', 'break/solve_backward_band_one_short', 'core.py', r'for k in range\(j\+1, min\(n, j\+6\)\):', 'for k in range(j+1, min(n, j+5)):', 'violation', only='solve')
    R('C03', 'break/solve_last_pivot_not_inverted', 'core.py', r'amat\[6\*\(n-1\)\] = d  # Last one', 'amat[6*(n-1)] = amat[6*(n-1)]  # Last one', 'violation', only='solve')
    R('C05', 'break/two_cells_halved', 'solver.py', r'grid\.shape_cells\[1\] < 3', 'grid.shape_cells[1] < 2', 'violation')
    R('C14', 'break/natural_log_in_lg_map', 'maps.py', r'return np\.log10\(conductivity\)', 'return np.log(conductivity)', 'violation')
    R('C16', 'break/use_up_rounds_down_twice', 'meshes.py', r'nr \+= int\(np\.ceil\(remain/2\)\)', 'nr += int(np.floor(remain/2))', 'violation')
    R('C16', 'break/second_stage_over_survey_domain', 'meshes.py', r'sd_edges, sd_hx, ca, nx, comp_domain, use_up=True', 'sd_edges, sd_hx, ca, nx, domain, use_up=True', 'violation')
    R('C16', 'break/missing_direction_not_reported', 'meshes.py', r'for out in \[x0, y0, z0\]\]\)', 'for out in [x0, y0]])', 'violation')
    R('C16', 'break/false_entries_of_direction_specific_options_dropped', 'meshes.py', r'if value\[i\] is not None:', 'if value[i]:', 'violation', only='option_formats')
    # --- harmless edits
    R('C01', 'harmless/reordered_divergence_test', 'solver.py', r'elif l2_last > 10\*var\.l2_refe or not np\.isfinite\(l2_last\):',
      'elif not np.isfinite(l2_last) or l2_last > 10*var.l2_refe:', 'held')
    R('C02', 'harmless/commuted_index_sum', 'core.py', r'izp = iz\+1', 'izp = 1+iz', 'held')
    R('C03', 'harmless/grid_passed_by_keyword', 'solver.py', r'c_lr_dir = _current_lr_dir\(lr_dir, model\.grid\)', 'c_lr_dir = _current_lr_dir(lr_dir, grid=model.grid)', 'held', only='dispatch')
    R('C03', 'harmless/solve_commuted_product', 'core.py', r'h \+= amat\[j\+5\*k\]\*bvec\[k\]', 'h += bvec[k]*amat[j+5*k]', 'held', only='solve')
    R('C05', 'harmless/reordered_disjunction', 'solver.py', r'xsc_dir = \(grid\.shape_cells\[0\] % 2 != 0 or grid\.shape_cells\[0\] < 3',
      'xsc_dir = (grid.shape_cells[0] < 3 or grid.shape_cells[0] % 2 != 0', 'held')
    R('C14', 'harmless/float_base', 'maps.py', r'return 10\*\*mapped', 'return 10.0**mapped', 'held')
    R('C16', 'harmless/commuted_min', 'meshes.py', r'dbuffer = np\.min\(\[wlength, np\.ones\(2\)\*max_buffer\], axis=0\)',
      'dbuffer = np.min([np.ones(2)*max_buffer, wlength], axis=0)', 'held')
    R('C20', 'harmless/flipped_comparison', 'time.py', r'return self\.freq_required < self\.fmin', 'return self.fmin > self.freq_required', 'held')
    return out
