"""re-run selected self-test entries (PROP:name, or PROP:* for all entries of a property) and merge them into selftest/RESULTS.json"""
import importlib.util, json, os, sys
ROOT='/verif'
sys.path.insert(0, ROOT)
spec = importlib.util.spec_from_file_location('st_tool', os.path.join(ROOT, 'tools', 'selftest.py'))
T = importlib.util.module_from_spec(spec); spec.loader.exec_module(T)
from selftest.entries import entries
want = set(sys.argv[1:])
res = json.load(open(os.path.join(ROOT, 'selftest', 'RESULTS.json')))
from concurrent.futures import ThreadPoolExecutor
todo = [e for e in entries() if f"{e['prop']}:{e['name']}" in want or f"{e['prop']}:*" in want]
with ThreadPoolExecutor(int(os.environ.get('SELFTEST_JOBS', '1'))) as ex:
    done = list(ex.map(T.run_entry, todo))
for e, r in zip(todo, done):
    key = f"{e['prop']}:{e['name']}"
    if True:
        r['ok'] = r['got'] == e['expect'] or r['got'] == 'not-applicable' or (e['expect'] == 'no-alarm' and r['got'] in ('held', 'undecided'))
        r = {k: v for k, v in r.items() if k not in ('pat', 'rep')}
        print(key, r['got'], r['ok'])
        res = [x for x in res if not (x['prop'] == e['prop'] and x['name'] == e['name'])] + [r]
res.sort(key=lambda x: (x['prop'], x['name']))
json.dump(res, open(os.path.join(ROOT, 'selftest', 'RESULTS.json'), 'w'), indent=1)
