"""regenerates MANIFEST.json from contracts/registry.py (run by hand after changing the registry)"""
import importlib
import json
import os
import sys

ROOT = os.path.dirname(os.path.dirname(os.path.abspath(__file__)))
sys.path.insert(0, ROOT)
from contracts import registry

props = [json.loads(l)['id'] for l in open(os.path.join(ROOT, 'properties.jsonl'))]
checks = []
for pid, c in registry.CLAIMED.items():
    checks.append(dict(
        property_id=pid, quick_cmd=f'bin/check {pid} --tier quick', thorough_cmd=f'bin/check {pid} --tier thorough',
        evidence_file=f'evidence/{pid}.json',
        replay_cmd_template=f'bin/check {pid} --tier quick  # the replay file {{path}} names the failed obligation and carries the solver output / concrete input',
        engine='pyvc', level_claimed=dict(category='proof', text=c['text'], design_ref=c['ref']),
        level_note=c['note'], technique=c['tech']))
na = [dict(property_id=p, reason=registry.NOT_APPLICABLE.get(p, 'check not built yet in this revision (planned, see DESIGN.md section 10)'))
      for p in props if p not in registry.CLAIMED]
m = dict(
    version=1, setup_cmd='bin/ensure_env',
    hooks=dict(guard='EMSIG_EMG3D_VERIF',
               enable='no hooks needed: contracts are sidecar files under /verif/contracts; checks read /repo\'s working tree directly and import emg3d from /repo for concrete replays',
               baseline_off_cmd='cd /repo && /venv/bin/python -m pytest -ra -q -p no:cacheprovider --timeout=900 --continue-on-collection-errors',
               source_commits=[], add_only=True),
    engines=[dict(name='pyvc', path='pyvc/', serves_properties=sorted(registry.CLAIMED),
                  kind_free_text='self-written verification-condition generator for Python (AST -> z3): kernel executor sx (symbolic arrays, loop rules), control executor cx (path-forking, aliasing/mutation events), sidecar contracts, obligation ledger, canaries, concrete replay')],
    checks=checks, not_applicable=na,
    notes='Exit codes of bin/check: 0 held, 1 violation (VIOLATION line), 2 undecided (UNDECIDED lines, never a violation), 3 checker fault. '
          'Genuine defects of the pinned tree that were repaired by fix: commits in /repo are listed in known_findings.json (status fixed).')
json.dump(m, open(os.path.join(ROOT, 'MANIFEST.json'), 'w'), indent=1)
print('claimed', sorted(registry.CLAIMED), 'n/a', [x['property_id'] for x in na])
