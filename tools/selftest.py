"""Run the generator self-test (selftest/entries.py) for one property or all: each edit on its own scratch copy of /repo/emg3d
(outside /repo and /verif, removed afterwards), quick tier, output captured.  Writes selftest/RESULTS.json when run for all."""
import json
import os
import re
import shutil
import subprocess
import sys
import tempfile

ROOT = os.path.dirname(os.path.dirname(os.path.abspath(__file__)))
sys.path.insert(0, ROOT)
REPO = os.environ.get('VERIF_REPO', '/repo')


def run_entry(e, tier='quick'):
    s = tempfile.mkdtemp(prefix='selftest.', dir='/tmp')
    try:
        shutil.copytree(os.path.join(REPO, 'emg3d'), os.path.join(s, 'emg3d'), ignore=shutil.ignore_patterns('__pycache__'))
        if os.path.isdir(os.path.join(REPO, 'docs')):
            shutil.copytree(os.path.join(REPO, 'docs'), os.path.join(s, 'docs'))
        if e['kind'] == 'patch':
            subprocess.run(['git', 'init', '-q', '.'], cwd=s, check=True)
            p = subprocess.run(['git', 'apply', '--whitespace=nowarn', os.path.join(ROOT, e['patch'])], cwd=s, capture_output=True, text=True)
            if p.returncode != 0:
                return dict(e, got='not-applicable', detail='patch does not apply to the current source')
        else:
            f = os.path.join(s, 'emg3d', e['file'])
            src = open(f).read()
            new, n = re.subn(e['pat'], e['rep'], src, count=e.get('count', 1))
            if n == 0 or new == src:
                return dict(e, got='not-applicable', detail='pattern not found in the current source')
            open(f, 'w').write(new)
        env = dict(os.environ, VERIF_REPO=s, PYTHONPATH=s, NUMBA_CACHE_DIR=os.path.join(s, 'nbcache'), VERIF_OUT=os.path.join(s, 'out'), VERIF_TIER=tier)
        cmd = [os.path.join(ROOT, 'bin', 'check'), e['prop'], '--tier', tier, '--no-selftest']
        if e.get('only'):
            cmd += ['--only', e['only']]
        p = subprocess.run(cmd, env=env, capture_output=True, text=True)
        viol = [l for l in p.stdout.splitlines() if l.startswith('VIOLATION')]
        got = {0: 'held', 1: 'violation', 2: 'undecided', 3: 'checker-fault'}.get(p.returncode, f'exit {p.returncode}')
        return dict(e, got=got, exit=p.returncode, violations=len(viol), with_failing_input=sum('no-failing-input-found' not in l for l in viol),
                    first=[re.sub(r'.*replays/(.*)\.json.*', r'\1', l) for l in viol[:3]],
                    undecided=sum(l.startswith('UNDECIDED') for l in p.stdout.splitlines()))
    finally:
        shutil.rmtree(s, ignore_errors=True)


def run(prop=None, tier='quick'):
    from selftest.entries import entries
    todo = [e for e in entries() if not prop or e['prop'] == prop]
    jobs = int(os.environ.get('SELFTEST_JOBS', '1'))        # entries are independent (own scratch copy, own output directory)
    if jobs > 1:
        from concurrent.futures import ThreadPoolExecutor
        with ThreadPoolExecutor(jobs) as ex:
            res = list(ex.map(lambda e: run_entry(e, tier), todo))
    else:
        res = [run_entry(e, tier) for e in todo]
    for e, r in zip(todo, res):
        r['ok'] = r['got'] == e['expect'] or r['got'] == 'not-applicable' or (e['expect'] == 'no-alarm' and r['got'] in ('held', 'undecided'))
    return res


if __name__ == '__main__':
    prop = sys.argv[1] if len(sys.argv) > 1 and sys.argv[1] != 'all' else None
    res = run(prop)
    for r in res:
        print(f"{'ok ' if r['ok'] else 'MISMATCH'} {r['prop']} {r['name']}: expected {r['expect']}, got {r['got']} "
              f"(violations={r.get('violations')}, undecided={r.get('undecided')})")
    if prop is None:
        keep = [{k: v for k, v in r.items() if k not in ('pat', 'rep')} for r in res]
        json.dump(keep, open(os.path.join(ROOT, 'selftest', 'RESULTS.json'), 'w'), indent=1)
    sys.exit(0 if all(r['ok'] for r in res) else 4)
