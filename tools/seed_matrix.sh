#!/bin/bash
# development helper: run every kept seeded change (seeded/<id>/patch.diff) through the check of its property on a scratch copy
# of /repo and record the outcome in seeded/RESULTS.json.  Nothing in /repo or in evidence/ is touched.
HERE="$(cd "$(dirname "$0")/.." && pwd)"
OUT=$(mktemp -d /tmp/seedmx.XXXXXX)
export VERIF_OUT=$OUT/out
echo "[" > $OUT/res.json
first=1
# optional arguments: seed ids to (re)run; their results replace / extend the entries of seeded/RESULTS.json, the others are kept
ONLY=" $* "
for d in $HERE/seeded/C*/; do
  id=$(basename $d)
  [ -f $d/patch.diff ] || continue
  if [ $# -gt 0 ] && [[ "$ONLY" != *" $id "* ]]; then continue; fi
  log=$OUT/$id.log
  prop=${id%%_*}
  "$HERE/bin/with_patch" $d/patch.diff $prop > $log 2>&1
  rc=$(grep -o 'exit=[0-9]*' $log | tail -1 | cut -d= -f2)
  nviol=$(grep -c '^VIOLATION' $log)
  nund=$(grep -c '^UNDECIDED' $log)
  nfault=$(grep -c '^CHECKER-FAULT' $log)
  obl=$(grep '^VIOLATION' $log | sed -E 's/.*replays\/(.*)\.json.*/\1/' | head -4 | python3 -c "import sys,json; print(json.dumps([l.strip() for l in sys.stdin]))")
  nofail=$(grep '^VIOLATION' $log | grep -c 'no-failing-input-found')
  [ $first = 1 ] || echo "," >> $OUT/res.json
  first=0
  echo "{\"seed\": \"$id\", \"exit\": ${rc:-null}, \"violations\": $nviol, \"without_failing_input\": $nofail, \"undecided\": $nund, \"checker_faults\": $nfault, \"first_obligations\": $obl}" >> $OUT/res.json
  echo "$id exit=$rc violations=$nviol undecided=$nund faults=$nfault"
done
echo "]" >> $OUT/res.json
python3 - "$OUT/res.json" "$HERE/seeded/RESULTS.json" "$#" <<'PY'
import json, os, sys
new = json.load(open(sys.argv[1]))
if int(sys.argv[3]) > 0 and os.path.exists(sys.argv[2]):
    old = {x['seed']: x for x in json.load(open(sys.argv[2]))}
    old.update({x['seed']: x for x in new})
    new = [old[k] for k in sorted(old)]
json.dump(new, open(sys.argv[2], 'w'), indent=1)
PY
rm -rf $OUT
