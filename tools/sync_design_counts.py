"""development helper: write the obligation / canary / bounded counts of evidence/*.json into the two tables of DESIGN.md (section 0 and section 5)"""
import json
import os
import re

ROOT = os.path.dirname(os.path.dirname(os.path.abspath(__file__)))
p = os.path.join(ROOT, 'DESIGN.md')
lines = open(p).read().split('\n')
out = []
for ln in lines:
    m = re.match(r'^\| (C\d\d) \| ([^|]+) \| (\d+) \| ', ln)
    m5 = re.match(r'^\| (C\d\d) \| ([^|]+) \| (\d+) / (\d+) / (\d+) \| ([^|]+) \|$', ln)
    if m and 'not applicable' not in m.group(2) and os.path.exists(os.path.join(ROOT, 'evidence', m.group(1) + '.json')):
        ev = json.load(open(os.path.join(ROOT, 'evidence', m.group(1) + '.json')))
        ln = ln.replace(f'| {m.group(1)} | {m.group(2)} | {m.group(3)} | ', f"| {m.group(1)} | {m.group(2)} | {ev['coverage']['discharged']} | ", 1)
    elif m5:
        ev = json.load(open(os.path.join(ROOT, 'evidence', m5.group(1) + '.json')))
        c = ev['coverage']
        can = c.get('canaries', {})
        ncan = can.get('total', 0) if isinstance(can, dict) else len(can)
        nb = len(c.get('bounded', [])) + len(c.get('concrete_crosschecks', []))
        ln = f"| {m5.group(1)} | {m5.group(2)} | {c['discharged']} / {ncan} / {nb} | {round(ev.get('wall_s', 0))} s |"
    out.append(ln)
open(p, 'w').write('\n'.join(out))
